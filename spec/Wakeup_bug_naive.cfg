SPECIFICATION Spec
CONSTANTS
 IdxMod = 8
 N = 2
 Coded = "naive"
INVARIANT TypeOK
PROPERTY NoLostWakeup
CHECK_DEADLOCK FALSE
