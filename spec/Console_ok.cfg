SPECIFICATION MCSpec
CONSTANTS
 Cap = 3
 MaxStream = 7
 Bug = "none"
INVARIANTS NothingLost StreamAccounted NeverBlocked
CHECK_DEADLOCK FALSE
