SPECIFICATION Spec
CONSTANTS
 Frames = 5
 Period = 1
 Cap = 2
 InOrder = TRUE
INVARIANTS ChunksOK Outcome
PROPERTY Terminates
CHECK_DEADLOCK FALSE
