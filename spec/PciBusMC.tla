------------------------------ MODULE PciBusMC ------------------------------
(* (a) the CAM/ECAM offset has a left inverse (hence is injective) and stays inside the window,
       for every device/function/register and a set of buses incl. the extremes;
   (b) the sizing protocol as coded in bus.rs (after the repair of D3/D6), in an 8-bit word
       world, against the guards of PciBus.tla for every BAR kind/size/slot/initial command. *)
EXTENDS PciBus
Buses == {0, 1, 127, 255}
ASSUME \A cam \in {"cam", "ecam"}, b \in Buses, d \in 0..31, f \in 0..7, rr \in 0..63 :
          LET o == CamOffset(cam, b, d, f, 4 * rr) IN
          CamDecode(cam, o) = <<b, d, f, 4 * rr>> /\ o < CamSize(cam) /\ o % 4 = 0
ASSUME \A x \in 1..65535 : LET b == LowestBit16(x) IN x % b = 0 /\ (x \div b) % 2 = 1
VARIABLE dummy
EmptyFn == [cmd |-> 0, regs |-> [i \in 1..6 |-> [maskl |-> Z2, flags |-> 0, regl |-> Z2]]]
Init == BInit(EmptyFn) /\ dummy = 0
Next == UNCHANGED <<bvars, dummy>>
=============================================================================
