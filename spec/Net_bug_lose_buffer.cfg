SPECIFICATION MCSpec
CONSTANTS
 QN = 2
 Bug = "lose_buffer"
 V1 = TRUE
INVARIANTS Conservation NeverBlocked
CONSTRAINT Bounded
CHECK_DEADLOCK FALSE
