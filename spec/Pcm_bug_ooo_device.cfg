SPECIFICATION Spec
CONSTANTS
 Frames = 5
 Period = 2
 Cap = 3
 InOrder = FALSE
INVARIANTS ChunksOK Outcome
PROPERTY Terminates
CHECK_DEADLOCK FALSE
