SPECIFICATION MCSpec
CONSTANTS
  IdxMod = 8
  ZeroAddr = 0
  QN = 4
  QIndirect = FALSE
  QEventIdx = FALSE
  MaxBufs = 2
  Adversary = FALSE
  WithNotify = FALSE
  Bug = "none"
INVARIANTS
  TypeOK
  C01_Disjoint
  C01_HeldDescribed
  C02_PublishedComplete
  C02_IdxAgrees
  C03_Outstanding
  C04_Ledger
  C04_NoBoth
  C05_Rearmed
  DriverNeverBlocked
  ImplAgrees
  ImplNotifyOk
  FreeListExact
  DevHeldDescribed
PROPERTIES
  C02_IdxMonotone
CHECK_DEADLOCK FALSE
