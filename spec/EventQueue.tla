----------------------------- MODULE EventQueue -----------------------------
(***************************************************************************)
(* C19: queues the driver keeps stocked with its own buffers (input        *)
(* events, sound notifications, socket receive, OwningQueue).              *)
(* The device completes any posted buffer with 0..cap bytes; a poll        *)
(* consumes the oldest completion, hands exactly those bytes to the        *)
(* caller, and posts the same buffer again under the same token; after     *)
(* every poll all n buffers are posted.                                    *)
(***************************************************************************)
EXTENDS Integers, Sequences, FiniteSets, TLC

VARIABLES ecfg,     \* [n, cap, q]
          posted,   \* tokens at the device
          doneq,    \* completions in device order: [tok, len, dg]
          cur,      \* completion consumed by the poll in progress (tok = -1: none)
          call
evars == <<ecfg, posted, doneq, cur, call>>
None == [op |-> "none"]
NoCur == [tok |-> -1, len |-> 0, dg |-> ""]

EInit(c) == ecfg = c /\ posted = {} /\ doneq = <<>> /\ cur = NoCur /\ call = None
EReset(c) == ecfg' = c /\ posted' = {} /\ doneq' = <<>> /\ cur' = NoCur /\ call' = None

Pending(t) == \E i \in 1..Len(doneq) : doneq[i].tok = t

\* the driver posts a buffer: during a poll only the buffer it just consumed, under the same token
Post(tok) ==
  /\ tok \notin posted /\ tok < ecfg.n
  /\ (call.op = "poll") => (cur.tok = tok)
  /\ posted' = posted \cup {tok}
  /\ UNCHANGED <<ecfg, doneq, cur, call>>
\* the device picks any posted buffer and writes 0..cap bytes
DevEvent(tok, len, dg) ==
  /\ tok \in posted /\ ~Pending(tok) /\ len <= ecfg.cap
  /\ doneq' = Append(doneq, [tok |-> tok, len |-> len, dg |-> dg])
  /\ UNCHANGED <<ecfg, posted, cur, call>>
\* the driver consumes the oldest completion
Pop(tok, len) ==
  /\ call.op = "poll" /\ cur = NoCur
  /\ doneq # <<>> /\ Head(doneq).tok = tok /\ Head(doneq).len = len
  /\ cur' = Head(doneq) /\ doneq' = Tail(doneq) /\ posted' = posted \ {tok}
  /\ UNCHANGED <<ecfg, call>>

Call(c) == call = None /\ call' = c /\ cur' = NoCur /\ UNCHANGED <<ecfg, posted, doneq>>
\* r.got: something was delivered; then exactly the bytes the device wrote
Ret(r) ==
  /\ call # None
  /\ CASE call.op = "new" -> TRUE
       [] call.op = "poll" ->
            IF cur = NoCur THEN ~r.got /\ doneq = <<>>                  \* nothing ready, nothing delivered
            ELSE /\ r.got /\ r.len = cur.len /\ r.dg = cur.dg /\ r.len <= ecfg.cap
                 /\ cur.tok \in posted                                   \* posted again before returning
       [] OTHER -> FALSE
  /\ call' = None /\ cur' = NoCur
  /\ ecfg' = IF call.op = "new" THEN [ecfg EXCEPT !.ready = TRUE] ELSE ecfg
  /\ UNCHANGED <<posted, doneq>>

Stocked == (call = None /\ ecfg.ready) => Cardinality(posted) = ecfg.n
=============================================================================
