---------------------------- MODULE ConsoleTrace ----------------------------
EXTENDS Console, Json, IOUtils
Rec == ndJsonDeserialize(IOEnv.TRACE)
VARIABLE l
tvars == <<cvars, l>>
Ev == Rec[l]
Is(name) == l <= Len(Rec) /\ Rec[l].e = name /\ l' = l + 1
TraceInit == l = 1 /\ CInit
TReset == Is("ConReset") /\ CReset
TCall  == Is("Call") /\ Call(IF Ev.op = "send" THEN [op |-> "send", dg |-> Ev.dg, len |-> Ev.len, sent |-> FALSE]
                              ELSE IF Ev.op = "write" THEN [op |-> "write", start |-> Ev.start, len |-> Ev.len, done |-> 0]
                              ELSE IF Ev.op = "fmt" THEN [op |-> "fmt", bytes |-> Ev.bytes, done |-> 0]
                              ELSE Ev)
TRet   == Is("Ret") /\ Ev.ok /\ Ret(Ev)
TFill  == Is("DevFill") /\ DevFill(Ev.start, Ev.k)
TTx    == Is("DevTx") /\ IF call.op = "fmt" THEN Ev.len = Len(Ev.bytes) /\ DevTxF(Ev.bytes, Ev.rl, Ev.wl)
                            ELSE IF call.op = "write" THEN DevTxW(Ev.first, Ev.len, Ev.affine, Ev.rl, Ev.wl)
                            ELSE DevTx(Ev.dg, Ev.len, Ev.rl, Ev.wl)
TQAdd  == Is("QAdd") /\ IF Ev.q = 0 THEN Post ELSE UNCHANGED cvars
TQPop  == Is("QPop") /\ IF Ev.q = 0 THEN Pickup(Ev.len) ELSE UNCHANGED cvars
TDrop  == Is("Drop") /\ call = None /\ UNCHANGED cvars
TraceNext == TReset \/ TCall \/ TRet \/ TFill \/ TTx \/ TQAdd \/ TQPop \/ TDrop
TraceSpec == TraceInit /\ [][TraceNext]_tvars
TraceAccepted ==
  LET d == TLCGet("stats").diameter IN
  IF d - 1 = Len(Rec) THEN TRUE
  ELSE /\ PrintT(<<"TRACE_REJECTED_AT", d, Rec[d]>>)
       /\ FALSE
=============================================================================
