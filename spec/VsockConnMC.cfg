SPECIFICATION MCSpec
CONSTANTS
 MaxSteps = 7
INVARIANTS NoOverAdvertise
PROPERTY Isolation
CHECK_DEADLOCK FALSE
