SPECIFICATION TraceSpec
INVARIANTS Conservation
POSTCONDITION TraceAccepted
CHECK_DEADLOCK FALSE
