----------------------------- MODULE Lifecycle -----------------------------
(***************************************************************************)
(* C08 / C09: device initialisation handshake, feature negotiation, queue  *)
(* enable/disable, notifications, DMA ledger with failing allocations,     *)
(* teardown order.                                                         *)
(*                                                                         *)
(* One action per call the transport sees (status writes, feature reads    *)
(* and writes, queue_set/unset, notify, drop) and per platform call        *)
(* (dma_alloc, possibly failing, dma_dealloc, a heap free of memory still  *)
(* shared with the device).  Guards are the properties.  The same module   *)
(* is model-checked with a generic driver process (LifecycleMC) and used   *)
(* to validate the recorded behaviour of all eleven drivers on the model   *)
(* transport and on the real MMIO / PCI transports (register-level device  *)
(* models emit the same abstract events).                                  *)
(***************************************************************************)
EXTENDS Wide, FiniteSets, TLC

ACK == 1  DRV == 2  DRIVER_OK == 4  FEATURES_OK == 8

HasBit(x, b) == (x \div b) % 2 = 1        \* b a power of two, x a small natural

\* feature words are 4 limbs; bit numbers 0..63
FBit(w, b) == (w[(b \div 16) + 1] \div (2 ^ (b % 16))) % 2 = 1
FSet(w) == { b \in 0..63 : FBit(w, b) }

F_INDIRECT == 28  F_EVENT_IDX == 29  F_VERSION_1 == 32  F_ACCESS_PLATFORM == 33
Common == {F_INDIRECT, F_EVENT_IDX, F_VERSION_1, F_ACCESS_PLATFORM}

\* what each driver supports (i.e. honours), by virtio device id
Supported(dev) ==
  Common \cup
  CASE dev = 2  -> {5, 9}          \* block: RO, FLUSH
    [] dev = 3  -> {0, 2}          \* console: SIZE, EMERG_WRITE
    [] dev = 16 -> {1}             \* gpu: EDID
    [] dev = 1  -> {5, 16}         \* net: MAC, STATUS
    [] OTHER    -> {}

VARIABLES
  dv,        \* [dev, offered (set of bits), legacy]
  status,    \* device status register as the device sees it
  step,      \* progress of the handshake: "fresh","reset","ackdrv","read","written","featok","ok"
  accepted,  \* negotiated feature bits
  enabled,   \* queues configured and not since disabled
  regions,   \* live DMA regions: seq number |-> [pages, queues]  (queues: indices whose rings live there)
  failed,    \* a dma_alloc has failed during this life
  result,    \* "none" | "ok" | "err:<e>" | "panic"
  dropped    \* the driver object is gone

lvars == <<dv, status, step, accepted, enabled, regions, failed, result, dropped>>

LInit(d) ==
  /\ dv = d /\ status = 0 /\ step = "fresh" /\ accepted = {} /\ enabled = {}
  /\ regions = <<>> /\ failed = FALSE /\ result = "none" /\ dropped = FALSE
LReset(d) ==
  /\ dv' = d /\ status' = 0 /\ step' = "fresh" /\ accepted' = {} /\ enabled' = {}
  /\ regions' = <<>> /\ failed' = FALSE /\ result' = "none" /\ dropped' = FALSE

Live(q) == HasBit(status, DRIVER_OK) /\ q \in enabled

\* ---- status writes: reset, ACKNOWLEDGE|DRIVER, +FEATURES_OK, +DRIVER_OK - in this order
SetStatus(v) ==
  /\ CASE v = 0 -> step' = (IF step = "fresh" THEN "reset" ELSE step) /\ enabled' = {}
       [] v = ACK + DRV -> step = "reset" /\ step' = "ackdrv" /\ UNCHANGED enabled
       [] v = ACK + DRV + FEATURES_OK -> step = "written" /\ step' = "featok" /\ UNCHANGED enabled
       [] v = ACK + DRV + FEATURES_OK + DRIVER_OK -> step = "featok" /\ step' = "ok" /\ UNCHANGED enabled
       [] OTHER -> FALSE
  /\ status' = v
  /\ UNCHANGED <<dv, accepted, regions, failed, result, dropped>>

ReadFeatures ==
  /\ step \in {"ackdrv", "ok"}         \* rtc re-reads the offered features later; harmless
  /\ step' = (IF step = "ackdrv" THEN "read" ELSE step)
  /\ UNCHANGED <<dv, status, accepted, enabled, regions, failed, result, dropped>>

\* only offered features the driver supports, VERSION_1 whenever offered
WriteFeatures(f) ==
  /\ step = "read"
  /\ f \subseteq dv.offered
  /\ f \subseteq Supported(dv.dev)
  /\ F_VERSION_1 \in dv.offered => F_VERSION_1 \in f
  /\ accepted' = f /\ step' = "written"
  /\ UNCHANGED <<dv, status, enabled, regions, failed, result, dropped>>

\* queues are configured after FEATURES_OK and before DRIVER_OK
QueueSet(q) ==
  /\ step = "featok"
  /\ enabled' = enabled \cup {q}
  /\ UNCHANGED <<dv, status, step, accepted, regions, failed, result, dropped>>
QueueUnset(q) ==
  /\ enabled' = enabled \ {q}
  /\ UNCHANGED <<dv, status, step, accepted, regions, failed, result, dropped>>

\* no available-buffer notification before DRIVER_OK
Notify(q) ==
  /\ HasBit(status, DRIVER_OK) /\ step = "ok"
  /\ UNCHANGED lvars

\* the transport object is dropped: the device is reset (real transports write status 0)
TransportDrop ==
  /\ status' = 0 /\ enabled' = {}
  /\ UNCHANGED <<dv, step, accepted, regions, failed, result, dropped>>

\* ---- platform
DmaAlloc(seq, pages) ==
  /\ seq \notin DOMAIN regions
  /\ regions' = (seq :> [pages |-> pages, queues |-> {}]) @@ regions
  /\ UNCHANGED <<dv, status, step, accepted, enabled, failed, result, dropped>>
DmaAllocFail ==
  /\ failed' = TRUE
  /\ UNCHANGED <<dv, status, step, accepted, enabled, regions, result, dropped>>
\* the harness tells which queues' rings live in a region when it is registered
RegionHolds(seqs, q) ==
  /\ seqs \subseteq DOMAIN regions
  /\ regions' = [s \in DOMAIN regions |-> IF s \in seqs THEN [regions[s] EXCEPT !.queues = @ \cup {q}] ELSE regions[s]]
  /\ UNCHANGED <<dv, status, step, accepted, enabled, failed, result, dropped>>

\* C09: returned exactly once, with matching address / pointer / page count, and never
\* while the device is live on a queue whose rings are in it
DmaDealloc(seq, known, vaOk, pagesOk) ==
  /\ known /\ vaOk /\ pagesOk
  /\ seq \in DOMAIN regions
  /\ \A q \in regions[seq].queues : ~Live(q)
  /\ regions' = [s \in DOMAIN regions \ {seq} |-> regions[s]]
  /\ UNCHANGED <<dv, status, step, accepted, enabled, failed, result, dropped>>

\* C09: heap memory that is still shared with the device on queue q is freed
FreeShared(q) ==
  /\ ~Live(q)
  /\ UNCHANGED lvars

\* ---- constructor result
NewOk ==
  /\ result = "none" /\ ~failed /\ step = "ok"
  /\ result' = "ok"
  /\ UNCHANGED <<dv, status, step, accepted, enabled, regions, failed, dropped>>
\* a failed allocation is reported as DmaError, not as a panic
NewErr(e) ==
  /\ result = "none"
  /\ failed => e = "DmaError"
  /\ result' = "err"
  /\ UNCHANGED <<dv, status, step, accepted, enabled, regions, failed, dropped>>

\* everything the driver owned is gone: nothing leaked
LifeEnd ==
  /\ result # "none"
  /\ regions = <<>>
  /\ dropped' = TRUE
  /\ UNCHANGED <<dv, status, step, accepted, enabled, regions, failed, result>>

\* invariants
NoLiveWithoutInit == \A q \in enabled : HasBit(status, DRIVER_OK) => step = "ok"
AcceptedOK == accepted \subseteq dv.offered \cap Supported(dv.dev)
=============================================================================
