------------------------------- MODULE Edid -------------------------------
(***************************************************************************)
(* C20, "returned values equal what the device reported", for the EDID     *)
(* blob of the GPU driver: the two public extractors of `Edid`             *)
(* (src/device/gpu/edid.rs) as functions of the bytes the device returned. *)
(* VESA E-EDID rel. A rev. 2: standard timings are the 8 two-byte entries  *)
(* at offset 38 (3.9), the preferred mode is the first detailed timing     *)
(* descriptor at offset 54 (3.10.2).  Only the base block matters; a blob  *)
(* shorter than 128 bytes has none.                                        *)
(*                                                                         *)
(* st  : the 16 bytes at offsets 38..53, dtd : the 18 bytes at 54..71      *)
(* (1-based sequences), size : <<low 16 bits, high 16 bits>> of the size   *)
(* field of the response.                                                  *)
(***************************************************************************)
EXTENDS Naturals, Sequences

HasBase(size) == size[2] > 0 \/ size[1] >= 128

Ratio(bits, h) == CASE bits = 0 -> (h * 10) \div 16
                    [] bits = 1 -> (h * 3) \div 4
                    [] bits = 2 -> (h * 4) \div 5
                    [] bits = 3 -> (h * 9) \div 16

\* one entry: <<>> if unused (01 01), else << <<width, height>> >>
StdTiming(b0, b1) ==
  IF b0 = 1 /\ b1 = 1 THEN <<>>
  ELSE LET h == (b0 + 31) * 8 IN << <<h, Ratio(b1 \div 64, h)>> >>

RECURSIVE StdFrom(_, _)
StdFrom(st, i) == IF i > 8 THEN <<>> ELSE StdTiming(st[2 * i - 1], st[2 * i]) \o StdFrom(st, i + 1)

Pixels(m) == m[1] * m[2]

\* largest first; entries with the same pixel count keep the order of the blob
RECURSIVE InsertDesc(_, _)
InsertDesc(m, s) ==
  IF s = <<>> THEN <<m>>
  ELSE IF Pixels(Head(s)) >= Pixels(m) THEN <<Head(s)>> \o InsertDesc(m, Tail(s))
  ELSE <<m>> \o s
RECURSIVE SortDesc(_, _)
SortDesc(l, acc) == IF l = <<>> THEN acc ELSE SortDesc(Tail(l), InsertDesc(Head(l), acc))

StandardTimings(size, st) == IF HasBase(size) THEN SortDesc(StdFrom(st, 1), <<>>) ELSE <<>>

\* preferred resolution: [ok |-> FALSE] or [ok |-> TRUE, w, h]
DtdH(dtd) == dtd[3] + (dtd[5] \div 16) * 256
DtdV(dtd) == dtd[6] + (dtd[8] \div 16) * 256
Preferred(size, dtd) ==
  IF HasBase(size) /\ DtdH(dtd) # 0 /\ DtdV(dtd) # 0
  THEN [ok |-> TRUE, w |-> DtdH(dtd), h |-> DtdV(dtd)]
  ELSE [ok |-> FALSE]

\* what the two extractors must have returned for a recorded blob
EdidOk(size, st, dtd, pref, modes) ==
  /\ modes = StandardTimings(size, st)
  /\ LET p == Preferred(size, dtd) IN
     IF p.ok THEN pref.ok /\ pref.w = p.w /\ pref.h = p.h
     ELSE ~pref.ok /\ pref.err = "IoError"
=============================================================================
