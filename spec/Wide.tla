-------------------------------- MODULE Wide --------------------------------
(***************************************************************************)
(* Wide unsigned integers as little-endian sequences of 16-bit limbs.      *)
(* TLC's integers are 32-bit and overflow is an error, so every quantity   *)
(* wider than 31 bits (64-bit device addresses, 32-bit credit counters,    *)
(* BAR sizes) is logged by the harness as limbs and handled here.          *)
(***************************************************************************)
EXTENDS Integers, Sequences

B == 65536

WZero(k) == [i \in 1..k |-> 0]

RECURSIVE WFromNatR(_, _)
WFromNatR(n, k) == IF k = 0 THEN <<>> ELSE <<n % B>> \o WFromNatR(n \div B, k - 1)
\* n < 2^31
WFromNat(n, k) == WFromNatR(n, k)

IsWide(a, k) == Len(a) = k /\ \A i \in 1..k : a[i] \in 0..B-1

\* a + n (mod B^Len(a)) for a natural n < 2^30
RECURSIVE WAddNatR(_, _, _)
WAddNatR(a, n, i) ==
  IF i > Len(a) THEN <<>>
  ELSE LET s == a[i] + (n % B) IN     \* < 2^17; carry folded into the next step
       <<s % B>> \o WAddNatR(a, (n \div B) + (s \div B), i + 1)
WAddNat(a, n) == WAddNatR(a, n, 1)

\* did a + n overflow B^Len(a)?
RECURSIVE WAddNatCarryR(_, _, _)
WAddNatCarryR(a, n, i) ==
  IF i > Len(a) THEN n > 0
  ELSE LET s == a[i] + (n % B) IN WAddNatCarryR(a, (n \div B) + (s \div B), i + 1)
WAddNatOverflows(a, n) == WAddNatCarryR(a, n, 1)

\* a + b (mod B^k), same length
RECURSIVE WAddR(_, _, _, _)
WAddR(a, b, c, i) ==
  IF i > Len(a) THEN <<>>
  ELSE LET s == a[i] + b[i] + c IN <<s % B>> \o WAddR(a, b, s \div B, i + 1)
WAdd(a, b) == WAddR(a, b, 0, 1)
RECURSIVE WAddCarryR(_, _, _, _)
WAddCarryR(a, b, c, i) ==
  IF i > Len(a) THEN c > 0
  ELSE LET s == a[i] + b[i] + c IN WAddCarryR(a, b, s \div B, i + 1)
WAddOverflows(a, b) == WAddCarryR(a, b, 0, 1)

\* a - b (mod B^k)
RECURSIVE WSubR(_, _, _, _)
WSubR(a, b, br, i) ==
  IF i > Len(a) THEN <<>>
  ELSE LET d == a[i] - b[i] - br IN
       <<(d + B) % B>> \o WSubR(a, b, IF d < 0 THEN 1 ELSE 0, i + 1)
WSub(a, b) == WSubR(a, b, 0, 1)

\* comparison, most significant limb first
RECURSIVE WCmpR(_, _, _)
WCmpR(a, b, i) ==
  IF i = 0 THEN 0
  ELSE IF a[i] < b[i] THEN -1 ELSE IF a[i] > b[i] THEN 1 ELSE WCmpR(a, b, i - 1)
WCmp(a, b) == WCmpR(a, b, Len(a))
WLt(a, b) == WCmp(a, b) < 0
WLe(a, b) == WCmp(a, b) <= 0
WEq(a, b) == a = b

\* a as a natural number if it fits 30 bits, else -1
WToNat(a) ==
  IF \A i \in 3..Len(a) : a[i] = 0 THEN
     IF Len(a) >= 2 /\ a[2] >= 16384 THEN -1
     ELSE a[1] + (IF Len(a) >= 2 THEN a[2] * B ELSE 0)
  ELSE -1

\* a - b as a natural number if 0 <= a - b < 2^30, else -1
WDiffNat(a, b) == IF WLt(a, b) THEN -1 ELSE WToNat(WSub(a, b))

\* a mod m for a power of two m <= 65536
WModSmall(a, m) == a[1] % m

\* 32-bit halves of a 4-limb value
Lo32(a) == <<a[1], a[2]>>
Hi32(a) == <<a[3], a[4]>>
Join64(lo, hi) == lo \o hi

\* widen / truncate
WExtend(a, k) == a \o [i \in 1..(k - Len(a)) |-> 0]
WTrunc(a, k)  == SubSeq(a, 1, k)

\* is a a power of two?  (exactly one bit set)
RECURSIVE PopLimb(_)
PopLimb(x) == IF x = 0 THEN 0 ELSE (x % 2) + PopLimb(x \div 2)
WIsPow2(a) == LET S == [i \in 1..Len(a) |-> PopLimb(a[i])] IN
              (S[1] + (IF Len(a) >= 2 THEN S[2] ELSE 0) + (IF Len(a) >= 3 THEN S[3] ELSE 0)
                    + (IF Len(a) >= 4 THEN S[4] ELSE 0)) = 1
=============================================================================
