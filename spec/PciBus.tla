------------------------------- MODULE PciBus -------------------------------
(***************************************************************************)
(* C12: PCI bus helpers.                                                   *)
(*                                                                         *)
(* A function is modelled by its command register and six BAR registers,   *)
(* each with a mask of writable address bits and hard-wired flag bits      *)
(* (that is what a BAR *is* to software).  `bar_info` / `bars` are         *)
(* bracketed operations consisting of configuration accesses; guards:      *)
(* nothing but the command register and BAR registers is written, a BAR    *)
(* write that changes address bits happens only while I/O and memory       *)
(* decoding are disabled, and at the end the command register and all BAR  *)
(* registers are exactly as they were - for results and for errors - and   *)
(* the result is the kind / address / prefetchability / size (lowest       *)
(* writable address bit, across both halves for 64-bit BARs) the model     *)
(* prescribes.  Also: CAM/ECAM offsets, bus enumeration, capability walk.  *)
(***************************************************************************)
EXTENDS Wide, Bitwise, FiniteSets, TLC

VARIABLES fn, saved, op
bvars == <<fn, saved, op>>
NoOp == [name |-> "none"]
Z2 == <<0, 0>>

BInit(f) == fn = f /\ saved = f /\ op = NoOp
BReset(f) == fn' = f /\ saved' = f /\ op' = NoOp

AndW(a, b) == [i \in 1..Len(a) |-> a[i] & b[i]]

OpBegin(o) == op = NoOp /\ op' = o /\ saved' = fn /\ UNCHANGED fn

CfgRead == UNCHANGED bvars
CfgWrite(off, v) ==
  /\ op # NoOp
  /\ IF off = 4
     THEN fn' = [fn EXCEPT !.cmd = v[1] & 1919]                        \* 0x077f writable
     ELSE /\ off \in {16, 20, 24, 28, 32, 36}
          /\ LET i == (off - 16) \div 4 + 1
                 nv == AndW(v, fn.regs[i].maskl) IN
             \* never a sizing pattern (or any new address) while decoding is enabled
             /\ nv # fn.regs[i].regl => fn.cmd % 4 = 0
             /\ fn' = [fn EXCEPT !.regs[i].regl = nv]
  /\ UNCHANGED <<saved, op>>

\* ---- what the helpers must report
LowestBit16(x) == CHOOSE b \in {2^k : k \in 0..15} : x % (2 * b) = b
RECURSIVE LowestBitR(_, _)
LowestBitR(m, i) == IF i > Len(m) THEN WZero(Len(m))
                    ELSE IF m[i] # 0 THEN [j \in 1..Len(m) |-> IF j = i THEN LowestBit16(m[i]) ELSE 0]
                    ELSE LowestBitR(m, i + 1)
LowestBitW(m) == LowestBitR(m, 1)

Expected(f, slot) ==
  LET r == f.regs[slot + 1] IN
  IF r.maskl = Z2 /\ r.flags = 0 THEN [kind |-> "none"]
  ELSE IF r.flags % 2 = 1
       THEN [kind |-> "io", addrl |-> r.regl \o Z2, sizel |-> LowestBitW(r.maskl) \o Z2]
  ELSE LET ty == (r.flags \div 2) % 4 IN
       IF ty = 3 THEN [kind |-> "err"]
       ELSE IF ty = 2
            THEN IF slot = 5 THEN [kind |-> "err"]
                 ELSE LET u == f.regs[slot + 2] IN
                      [kind |-> "mem", type |-> "64", prefetch |-> (r.flags \div 8) % 2 = 1,
                       addrl |-> r.regl \o u.regl, sizel |-> LowestBitW(r.maskl \o u.maskl)]
            ELSE [kind |-> "mem", type |-> IF ty = 0 THEN "32" ELSE "1m", prefetch |-> (r.flags \div 8) % 2 = 1,
                  addrl |-> r.regl \o Z2, sizel |-> LowestBitW(r.maskl) \o Z2]

Matches(res, e) ==
  /\ res.kind = e.kind
  /\ e.kind \in {"io", "mem"} => res.addrl = e.addrl /\ res.sizel = e.sizel
  /\ e.kind = "mem" => res.type = e.type /\ res.prefetch = e.prefetch

\* bars(): slot after a 64-bit BAR is skipped; any error makes the whole call fail
RECURSIVE TableOK(_, _, _)
TableOK(t, f, slot) ==
  IF slot > 5 THEN TRUE
  ELSE LET e == Expected(f, slot) IN
       /\ Matches(t[slot + 1], e)
       /\ IF e.kind = "mem" /\ e.type = "64"
          THEN (slot + 1 <= 5 => t[slot + 2].kind = "none") /\ TableOK(t, f, slot + 2)
          ELSE TableOK(t, f, slot + 1)
RECURSIVE TableErr(_, _)
TableErr(f, slot) ==
  IF slot > 5 THEN FALSE
  ELSE LET e == Expected(f, slot) IN
       \/ e.kind = "err"
       \/ TableErr(f, IF e.kind = "mem" /\ e.type = "64" THEN slot + 2 ELSE slot + 1)

SameFn(a, b) == a.cmd = b.cmd /\ \A i \in 1..6 : a.regs[i].regl = b.regs[i].regl

OpEnd(res, after) ==
  /\ op # NoOp
  /\ SameFn(fn, saved)              \* command register and all BARs exactly as they were ...
  /\ SameFn(after, saved)           \* ... also as the function itself reports them
  /\ IF op.name = "bar_info" THEN Matches(res, Expected(saved, op.slot))
     ELSE IF TableErr(saved, 0) THEN res.kind = "err"
     ELSE res.kind = "table" /\ TableOK(res.t, saved, 0)
  /\ op' = NoOp /\ UNCHANGED <<fn, saved>>

\* ---- configuration address mechanisms
CamShift(cam) == IF cam = "ecam" THEN 4096 ELSE 256
CamSize(cam)  == IF cam = "ecam" THEN 268435456 ELSE 16777216
CamOffset(cam, b, d, f, r) == (b * 256 + d * 8 + f) * CamShift(cam) + r
CamDecode(cam, o) == LET bdf == o \div CamShift(cam) IN
                     <<bdf \div 256, (bdf \div 8) % 32, bdf % 8, o % CamShift(cam)>>
CamSampleOK(cam, b, d, f, r, offl) ==
  LET o == offl[1] + offl[2] * 65536 IN
  /\ o = CamOffset(cam, b, d, f, r) /\ o < CamSize(cam) /\ o % 4 = 0
  /\ CamDecode(cam, o) = <<b, d, f, r>>

\* ---- enumeration / capability walking
SameSeq(a, b, fields) == Len(a) = Len(b) /\ \A i \in 1..Len(a) : \A k \in fields : a[i][k] = b[i][k]
EnumerateOK(present, found) ==
  /\ SameSeq(present, found, {"d", "f", "vendor", "device", "class", "subclass", "prog_if", "revision", "header"})
  /\ \A i \in 1..Len(found) : found[i].bus_ok
CapsOK(chain, found) == SameSeq(chain, found, {"off", "id", "ph"})
=============================================================================
