SPECIFICATION Spec
CONSTANTS
 IdxMod = 8
 N = 2
 Coded = "last_only"
INVARIANT TypeOK
PROPERTY NoLostWakeup
CHECK_DEADLOCK FALSE
