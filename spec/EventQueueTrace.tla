-------------------------- MODULE EventQueueTrace --------------------------
EXTENDS EventQueue, Json, IOUtils
Rec == ndJsonDeserialize(IOEnv.TRACE)
VARIABLE l
tvars == <<evars, l>>
Ev == Rec[l]
Is(name) == l <= Len(Rec) /\ Rec[l].e = name /\ l' = l + 1
TraceInit == l = 1 /\ EInit([n |-> 0, cap |-> 0, q |-> 0, ready |-> FALSE])
TReset == Is("EqReset") /\ EReset([n |-> Ev.n, cap |-> Ev.cap, q |-> Ev.q, ready |-> FALSE])
\* a cut point of a long run: the harness writes it only when the device's own books say the
\* queue is quiescent; inside a trace the specification must agree, at the head of a trace it
\* is the initial state (every buffer posted, nothing completed, driver ready)
TWarm  == /\ Is("EqWarmReset")
          /\ l > 1 => (call = None /\ doneq = <<>> /\ cur = NoCur /\ posted = 0..(Ev.n - 1) /\ ecfg.ready)
          /\ ecfg' = [n |-> Ev.n, cap |-> Ev.cap, q |-> Ev.q, ready |-> TRUE]
          /\ posted' = 0..(Ev.n - 1) /\ doneq' = <<>> /\ cur' = NoCur /\ call' = None
TCall  == Is("Call") /\ Call(Ev)
TRet   == Is("Ret") /\ Ret(Ev)
TQAdd  == Is("QAdd") /\ IF Ev.q = ecfg.q THEN Post(Ev.tok) ELSE UNCHANGED evars
TQPop  == Is("QPop") /\ IF Ev.q = ecfg.q THEN Pop(Ev.tok, Ev.len) ELSE UNCHANGED evars
TDev   == Is("DevEvent") /\ DevEvent(Ev.tok, Ev.len, Ev.dg)
TDrop  == Is("Drop") /\ call = None /\ UNCHANGED evars
TraceNext == TReset \/ TWarm \/ TCall \/ TRet \/ TQAdd \/ TQPop \/ TDev \/ TDrop
TraceSpec == TraceInit /\ [][TraceNext]_tvars
TraceAccepted ==
  LET d == TLCGet("stats").diameter IN
  IF d - 1 = Len(Rec) THEN TRUE
  ELSE /\ PrintT(<<"TRACE_REJECTED_AT", d, Rec[d]>>)
       /\ FALSE
=============================================================================
