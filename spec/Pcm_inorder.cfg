SPECIFICATION Spec
CONSTANTS
 Frames = 7
 Period = 2
 Cap = 3
 InOrder = TRUE
INVARIANTS ChunksOK Outcome
PROPERTY Terminates
CHECK_DEADLOCK FALSE
