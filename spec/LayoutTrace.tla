----------------------------- MODULE LayoutTrace -----------------------------
(* Trace validation for Layout.tla: one life (VirtQueue::new ... drop) per LReset. *)
EXTENDS Layout, Json, IOUtils

Rec == ndJsonDeserialize(IOEnv.TRACE)
VARIABLE l
tvars == <<lvars, l>>
Ev == Rec[l]
Is(name) == l <= Len(Rec) /\ Rec[l].e = name /\ l' = l + 1
IsT(opn) == l <= Len(Rec) /\ Rec[l].e = "T" /\ Rec[l].op = opn /\ l' = l + 1

TraceInit == l = 1 /\ LInit([n |-> 1, legacy |-> FALSE, ap |-> FALSE, inUse |-> TRUE, max |-> 0])

TReset == Is("LReset") /\ LReset([n |-> Ev.n, legacy |-> Ev.legacy, ap |-> Ev.ap, inUse |-> Ev.in_use, max |-> Ev.max])
TUsed  == IsT("queue_used") /\ AnswerUsed(Ev.v)
TMax   == IsT("max_queue_size") /\ AnswerMax(Ev.v)
TAlloc == Is("DmaAlloc") /\ IF Ev.failed THEN AllocFailed ELSE DmaAlloc(Ev.pal, Ev.pages, Ev.dir, Ev.ap)
TSet   == IsT("queue_set") /\ QueueSet(Ev.size, Ev.descl, Ev.availl, Ev.usedl)
TInit  == Is("InitLinks") /\ RingsObserved(Ev.rings_zero)
TRet   == Is("NewRet") /\ IF Ev.ok THEN NewOk ELSE (NewErr(Ev.err) \/ NewErrNoMem(Ev.err))
TFree  == Is("DmaDealloc") /\ Ev.known /\ Ev.pages_ok /\ DmaDealloc(Ev.pal, Ev.pages, Ev.va_ok, Ev.ap)
TDrop  == IsT("drop") /\ UNCHANGED lvars
TEnd   == Is("LEnd") /\ LifeEnd
THolds == Is("RegionHolds") /\ UNCHANGED lvars      \* bookkeeping for Lifecycle.tla

TraceNext == TReset \/ TUsed \/ TMax \/ TAlloc \/ TSet \/ TInit \/ TRet \/ TFree \/ TDrop \/ TEnd \/ THolds
TraceSpec == TraceInit /\ [][TraceNext]_tvars

TraceAccepted ==
  LET d == TLCGet("stats").diameter IN
  IF d - 1 = Len(Rec) THEN TRUE
  ELSE /\ PrintT(<<"TRACE_REJECTED_AT", d, Rec[d]>>)
       /\ FALSE
=============================================================================
