SPECIFICATION MCSpec
CONSTANTS
  NQ = 2
  Legacy = FALSE
  Bug = "no_unset"
INVARIANTS DriverNeverBlocked NoLiveWithoutInit AcceptedOK Negotiated
CHECK_DEADLOCK FALSE
