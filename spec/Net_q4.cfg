SPECIFICATION MCSpec
CONSTANTS
 QN = 4
 Bug = "none"
 V1 = FALSE
INVARIANTS Conservation NeverBlocked
CONSTRAINT Bounded
CHECK_DEADLOCK FALSE
