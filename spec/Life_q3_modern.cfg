SPECIFICATION MCSpec
CONSTANTS
  NQ = 3
  Legacy = FALSE
  Bug = "none"
INVARIANTS DriverNeverBlocked NoLiveWithoutInit AcceptedOK Negotiated
CHECK_DEADLOCK FALSE
