-------------------------------- MODULE Mmio --------------------------------
(***************************************************************************)
(* C10: register discipline of the virtio-mmio transport (Virtio 1.2       *)
(* 4.2.2 modern, 4.2.4 legacy), and probing.                               *)
(*                                                                         *)
(* Every register access of the real MmioTransport is one step `Acc`; the  *)
(* global rules (defined offset for the device version, direction, 32-bit  *)
(* width below 0x100) are its guard.  Transport operations issued by the   *)
(* harness are bracketed by OpBegin / OpEnd, and OpEnd is guarded by the    *)
(* exact access pattern the standard prescribes for that operation with    *)
(* those arguments and by the value returned.  Accesses outside brackets   *)
(* (the transport used from inside a driver) are subject to the global     *)
(* rules and to select-before-use.                                         *)
(***************************************************************************)
EXTENDS Wide, FiniteSets, TLC

VARIABLES
  ver,        \* 1 legacy, 2 modern
  cfgLen,     \* size of the device configuration window (region size - 0x100)
  pageSet,    \* legacy: GuestPageSize has been written (and its value)
  selected,   \* queue selected by the last QueueSel write, -1 if none since the operation began
  op,         \* [name, args] of the bracketed operation, or NoOp
  acc         \* accesses of the current operation: sequence of [rw, off, w, v]

mvars == <<ver, cfgLen, pageSet, selected, op, acc>>
NoOp == [name |-> "none"]

\* register map: offset |-> direction, by version
RO == {0, 4, 8, 12, 16, 52, 96, 252}        \* magic version device vendor devfeat qnummax intstatus cfggen
WO == {20, 32, 36, 48, 56, 80, 100}          \* devfeatsel drvfeat drvfeatsel qsel qnum qnotify intack
RW == {112}                                  \* status
LegacyWO == {40, 60}                         \* guestpagesize queuealign
LegacyRW == {64}                             \* queuepfn
ModernRW == {68}                             \* queueready
ModernWO == {128, 132, 144, 148, 160, 164}   \* desc lo/hi driver lo/hi device lo/hi
PerQueue == {52, 56, 60, 64, 68, 128, 132, 144, 148, 160, 164}

Readable(v)  == (RO \ (IF v = 1 THEN {252} ELSE {})) \cup RW \cup (IF v = 1 THEN LegacyRW ELSE ModernRW)
Writable(v)  == WO \cup RW \cup (IF v = 1 THEN LegacyWO \cup LegacyRW ELSE ModernRW \cup ModernWO)

V32(x) == Lo32(x)       \* values are logged as 4 limbs; registers are 32 bits
N32(n) == WFromNat(n, 2)

MInit(v, c) == ver = v /\ cfgLen = c /\ pageSet = 0 /\ selected = -1 /\ op = NoOp /\ acc = <<>>
MReset(v, c) == ver' = v /\ cfgLen' = c /\ pageSet' = 0 /\ selected' = -1 /\ op' = NoOp /\ acc' = <<>>

\* ---- one register access
Acc(rw, off, w, v) ==
  /\ IF off < 256
     THEN /\ w = 4                                             \* 32-bit accesses only
          /\ off \in (IF rw = "r" THEN Readable(ver) ELSE Writable(ver))
          /\ off \in PerQueue => selected # -1                  \* queue selected first
     ELSE /\ off + w <= 256 + cfgLen                            \* inside the configuration window
          /\ w \in {1, 2, 4, 8}
  /\ selected' = IF rw = "w" /\ off = 48 /\ WToNat(V32(v)) >= 0 THEN WToNat(V32(v)) ELSE selected
  \* a legacy device forgets the guest page size when it is reset (status written as zero)
  /\ pageSet' = IF rw = "w" /\ off = 40 THEN WToNat(V32(v))
                ELSE IF rw = "w" /\ off = 112 /\ V32(v) = N32(0) THEN 0
                ELSE pageSet
  /\ acc' = Append(acc, [rw |-> rw, off |-> off, w |-> w, v |-> V32(v), v64 |-> v])
  /\ UNCHANGED <<ver, cfgLen, op>>

OpBegin(name, args) ==
  /\ op = NoOp
  /\ op' = [name |-> name, args |-> args]
  /\ acc' = <<>> /\ selected' = -1
  /\ UNCHANGED <<ver, cfgLen, pageSet>>

W(off, val) == [rw |-> "w", off |-> off, w |-> 4, v |-> val]
IsW(a, off, val) == a.rw = "w" /\ a.off = off /\ a.v = val
IsR(a, off) == a.rw = "r" /\ a.off = off
Writes == { i \in 1..Len(acc) : acc[i].rw = "w" }
Reads  == { i \in 1..Len(acc) : acc[i].rw = "r" }
\* exactly one write to `off`, with value `val`
Once(off, val) == Cardinality({ i \in Writes : acc[i].off = off }) = 1
                  /\ \E i \in Writes : IsW(acc[i], off, val)

\* bytes of the configuration window touched by the accesses
Touched == UNION { { acc[i].off - 256 + k : k \in 0..acc[i].w - 1 } : i \in 1..Len(acc) }

\* ---- the pattern of each operation; a = op.args, r = logged result
Pattern(name, a, r) ==
  CASE name \in {"device_type", "requires_legacy_layout"} -> acc = <<>>
    [] name = "read_device_features" ->
         /\ Len(acc) = 4
         /\ IsW(acc[1], 20, N32(0)) /\ IsR(acc[2], 16) /\ IsW(acc[3], 20, N32(1)) /\ IsR(acc[4], 16)
         /\ r.vl = Join64(acc[2].v, acc[4].v)
    [] name = "write_driver_features" ->
         /\ Len(acc) = 4
         /\ IsW(acc[1], 36, N32(0)) /\ IsW(acc[2], 32, Lo32(a.vl))
         /\ IsW(acc[3], 36, N32(1)) /\ IsW(acc[4], 32, Hi32(a.vl))
    [] name = "max_queue_size" ->
         /\ Len(acc) = 2 /\ IsW(acc[1], 48, N32(a.q)) /\ IsR(acc[2], 52) /\ r.vl = acc[2].v
    [] name = "notify" -> Len(acc) = 1 /\ IsW(acc[1], 80, N32(a.q))
    [] name = "get_status" -> Len(acc) = 1 /\ IsR(acc[1], 112) /\ r.vl = acc[1].v
    [] name \in {"set_status", "drop"} -> Len(acc) = 1 /\ IsW(acc[1], 112, a.vl)
    [] name = "set_guest_page_size" ->
         IF ver = 1 THEN Len(acc) = 1 /\ IsW(acc[1], 40, N32(a.v)) ELSE acc = <<>>
    [] name = "queue_set" ->
         /\ Reads = {}
         /\ Len(acc) >= 1 /\ IsW(acc[1], 48, N32(a.q))               \* select first
         /\ Once(56, N32(a.size))
         /\ IF ver = 2
            THEN /\ Len(acc) = 9
                 /\ Once(128, Lo32(a.descl)) /\ Once(132, Hi32(a.descl))
                 /\ Once(144, Lo32(a.availl)) /\ Once(148, Hi32(a.availl))
                 /\ Once(160, Lo32(a.usedl)) /\ Once(164, Hi32(a.usedl))
                 /\ IsW(acc[9], 68, N32(1))                           \* ready last
            ELSE /\ Len(acc) = 4
                 /\ pageSet = 4096                                    \* guest page size was written before
                 /\ \E i \in Writes : acc[i].off = 60 /\ WToNat(acc[i].v) >= 4 /\ WIsPow2(acc[i].v)
                 /\ acc[4].rw = "w" /\ acc[4].off = 64                \* page frame number last
                 /\ acc[4].v # N32(0)
                 \* pfn * page size = descriptor address
                 /\ LET pfn == acc[4].v IN
                      /\ a.descl[1] % 4096 = 0
                      /\ pfn[1] = (a.descl[1] \div 4096) + (a.descl[2] % 4096) * 16
                      /\ pfn[2] = (a.descl[2] \div 4096) + (a.descl[3] % 4096) * 16
                      /\ a.descl[3] \div 4096 = 0 /\ a.descl[4] = 0
    [] name = "queue_unset" ->
         /\ Len(acc) >= 2 /\ IsW(acc[1], 48, N32(a.q))
         /\ \A i \in Writes \ {1} : acc[i].off \in PerQueue /\ acc[i].v = N32(0)
         /\ \E i \in Writes : acc[i].off = (IF ver = 1 THEN 64 ELSE 68)
         /\ \A i \in Reads : ver = 2 /\ acc[i].off = 68
         /\ ver = 2 => \E i \in Reads : acc[i].v = N32(0)            \* waited for the device
    [] name = "queue_used" ->
         /\ Len(acc) = 2 /\ IsW(acc[1], 48, N32(a.q))
         /\ IsR(acc[2], IF ver = 1 THEN 64 ELSE 68)
         /\ r.b = (acc[2].v # N32(0))
    [] name = "ack_interrupt" ->
         /\ Len(acc) >= 1 /\ IsR(acc[1], 96)
         /\ IF acc[1].v = N32(0) THEN Len(acc) = 1
            ELSE Len(acc) = 2 /\ IsW(acc[2], 100, acc[1].v)
         /\ r.v = acc[1].v[1] % 4
    [] name = "read_config_generation" ->
         IF ver = 1 THEN acc = <<>> /\ r.v = 0                        \* no such register on legacy devices
         ELSE Len(acc) = 1 /\ IsR(acc[1], 252) /\ r.vl = acc[1].v
    [] name \in {"read_config", "write_config"} ->
         \* C13: succeeds iff wholly inside the window, touching exactly those bytes
         IF ~a.huge /\ a.off + a.size <= cfgLen
         THEN /\ r.ok
              /\ Touched = { a.off + k : k \in 0..a.size - 1 }
              /\ \A i \in 1..Len(acc) : acc[i].rw = (IF name = "read_config" THEN "r" ELSE "w")
         ELSE /\ ~r.ok /\ r.err \in {"ConfigSpaceTooSmall", "ConfigSpaceMissing"} /\ acc = <<>>
    [] OTHER -> FALSE

OpEnd(r) ==
  /\ op # NoOp
  /\ Pattern(op.name, op.args, r)
  /\ op' = NoOp /\ acc' = <<>>
  /\ UNCHANGED <<ver, cfgLen, pageSet, selected>>

\* ---- probing: MmioTransport::new(header, size)
KnownDevice(id) == id \in (1..13) \cup (16..25)
ProbeExpect(h) ==
  IF h.size < 256 THEN "MmioRegionTooSmall"
  ELSE IF ~h.magic_ok THEN "BadMagic"
  ELSE IF ~(h.devl[2] = 0 /\ KnownDevice(h.devl[1])) THEN "InvalidDeviceID"
  ELSE IF ~(h.verl[2] = 0 /\ h.verl[1] \in {1, 2}) THEN "UnsupportedVersion"
  ELSE "ok"
\* accepts only correct magic, version 1 or 2, known non-zero device type, large enough region;
\* which error is reported when several things are wrong is not fixed by the property
Probe(h, res) ==
  /\ op = NoOp
  /\ (res = "ok") = (ProbeExpect(h) = "ok")
  /\ \A i \in 1..Len(acc) : acc[i].rw = "r" /\ acc[i].off \in {0, 4, 8, 12}     \* writes nothing
  /\ acc' = <<>>
  /\ UNCHANGED <<ver, cfgLen, pageSet, selected, op>>
=============================================================================
