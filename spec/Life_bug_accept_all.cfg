SPECIFICATION MCSpec
CONSTANTS
  NQ = 1
  Legacy = FALSE
  Bug = "accept_all"
INVARIANTS DriverNeverBlocked NoLiveWithoutInit AcceptedOK Negotiated
CHECK_DEADLOCK FALSE
