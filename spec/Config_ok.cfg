SPECIFICATION MCSpec
CONSTANTS
 NFields = 3
 MaxUpd = 3
 Bug = "none"
INVARIANT NeverBlocked
PROPERTY Terminates
CHECK_DEADLOCK FALSE
