------------------------------- MODULE Layout -------------------------------
(***************************************************************************)
(* C06: queue memory is laid out, registered and released correctly.       *)
(*                                                                         *)
(* State machine of one `VirtQueue::new` ... drop life, over the events    *)
(* the transport and the platform layer see: the transport's answers       *)
(* (queue_used, max_queue_size), Hal::dma_alloc, Transport::queue_set,     *)
(* the constructor's result, Hal::dma_dealloc.  The guards are the         *)
(* property, stated independently of the crate's arithmetic; the crate's   *)
(* own computation (queue_part_sizes / align_up / pages) is transcribed at *)
(* the end and checked against the guards for all sizes by LayoutMC.       *)
(***************************************************************************)
EXTENDS Wide, FiniteSets, TLC

PAGE == 4096

VARIABLES
  lc,        \* configuration of this life: [n, legacy, ap, inUse, max]
  phase,     \* "new" | "allocfail" | "ok" | "err" | "dropped"
  asked,     \* which answers the constructor obtained: subset of {"used","max"}
  regions,   \* live DMA regions: set of [pa, pages, dir]
  allocs,    \* number of successful dma_alloc so far
  reg,       \* what was registered with the transport: [desc, avail, used] or NoReg
  zeroed     \* rings observed zeroed at registration

lvars == <<lc, phase, asked, regions, allocs, reg, zeroed>>

NoReg == [desc |-> <<>>]

DescBytes(n)  == 16 * n
AvailBytes(n) == 6 + 2 * n
UsedBytes(n)  == 6 + 8 * n

Refused == lc.inUse \/ lc.max < lc.n

RegionEnd(r) == WAddNat(r.pa, r.pages * PAGE)
\* [a, a+size) lies inside region r (no wrap)
Inside(a, size, r) ==
  /\ WLe(r.pa, a)
  /\ ~WAddNatOverflows(a, size)
  /\ WLe(WAddNat(a, size), RegionEnd(r))
  /\ ~WAddNatOverflows(r.pa, r.pages * PAGE)
Disjoint(a, sa, b, sb) == WLe(WAddNat(a, sa), b) \/ WLe(WAddNat(b, sb), a)

DevReads(r)  == r.dir \in {"ToDevice", "Both"}
DevWrites(r) == r.dir \in {"FromDevice", "Both"}

\* the property for the three registered areas
AreasOK(n, legacy, rs, d, a, u) ==
  /\ WModSmall(d, 16) = 0 /\ WModSmall(a, 2) = 0 /\ WModSmall(u, 4) = 0
  /\ \E r \in rs : Inside(d, DescBytes(n), r) /\ DevReads(r)
  /\ \E r \in rs : Inside(a, AvailBytes(n), r) /\ DevReads(r)
  /\ \E r \in rs : Inside(u, UsedBytes(n), r) /\ DevWrites(r)
  /\ Disjoint(d, DescBytes(n), a, AvailBytes(n))
  /\ Disjoint(d, DescBytes(n), u, UsedBytes(n))
  /\ Disjoint(a, AvailBytes(n), u, UsedBytes(n))
  /\ legacy =>
       \* one contiguous page-aligned region; available ring directly after the descriptor
       \* table; used ring on the next page boundary after the available ring
       /\ Cardinality(rs) = 1
       /\ \A r \in rs :
            /\ WModSmall(r.pa, PAGE) = 0
            /\ a = WAddNat(d, DescBytes(n))
            /\ LET availEnd == WDiffNat(WAddNat(a, AvailBytes(n)), r.pa) IN
               /\ availEnd >= 0
               /\ WModSmall(u, PAGE) = 0
               /\ LET uo == WDiffNat(u, r.pa) IN uo >= availEnd /\ uo - availEnd < PAGE

LInit(c) ==
  /\ lc = c /\ phase = "new" /\ asked = {} /\ regions = {} /\ allocs = 0 /\ reg = NoReg /\ zeroed = FALSE
LReset(c) ==
  /\ lc' = c /\ phase' = "new" /\ asked' = {} /\ regions' = {} /\ allocs' = 0 /\ reg' = NoReg /\ zeroed' = FALSE

AnswerUsed(v) == phase = "new" /\ v = lc.inUse /\ asked' = asked \cup {"used"}
                 /\ UNCHANGED <<lc, phase, regions, allocs, reg, zeroed>>
AnswerMax(v)  == phase = "new" /\ v = lc.max /\ asked' = asked \cup {"max"}
                 /\ UNCHANGED <<lc, phase, regions, allocs, reg, zeroed>>

\* nothing is allocated for a refused creation; the access-platform flag is passed through
DmaAlloc(pa, pages, dir, ap) ==
  /\ phase = "new" /\ ~Refused /\ reg = NoReg
  /\ ap = lc.ap /\ pages > 0
  /\ \A r \in regions : Disjoint(pa, pages * PAGE, r.pa, r.pages * PAGE)
  /\ regions' = regions \cup {[pa |-> pa, pages |-> pages, dir |-> dir]}
  /\ allocs' = allocs + 1
  /\ UNCHANGED <<lc, phase, asked, reg, zeroed>>

QueueSet(size, d, a, u) ==
  /\ phase = "new" /\ ~Refused /\ reg = NoReg
  /\ size = lc.n
  /\ AreasOK(lc.n, lc.legacy, regions, d, a, u)
  /\ reg' = [desc |-> d, avail |-> a, used |-> u]
  /\ UNCHANGED <<lc, phase, asked, regions, allocs, zeroed>>

RingsObserved(z) == phase = "new" /\ reg # NoReg /\ zeroed' = z
                    /\ UNCHANGED <<lc, phase, asked, regions, allocs, reg>>

\* fault point: the platform has no memory for the k-th region.  Nothing is registered; regions
\* obtained before are returned (exactly as allocated) before the constructor reports DmaError,
\* and nothing is ever returned that was not obtained.
AllocFailed ==
  /\ phase = "new" /\ ~Refused /\ reg = NoReg
  /\ phase' = "allocfail"
  /\ UNCHANGED <<lc, asked, regions, allocs, reg, zeroed>>
NewErrNoMem(e) ==
  /\ phase = "allocfail"
  /\ e = "DmaError"
  /\ regions = {} /\ reg = NoReg
  /\ phase' = "err"
  /\ UNCHANGED <<lc, asked, regions, allocs, reg, zeroed>>

NewOk ==
  /\ phase = "new" /\ ~Refused /\ reg # NoReg /\ zeroed
  /\ phase' = "ok"
  /\ UNCHANGED <<lc, asked, regions, allocs, reg, zeroed>>
NewErr(e) ==
  /\ phase = "new" /\ Refused
  /\ e = (IF lc.inUse THEN "AlreadyUsed" ELSE "InvalidParam")
  /\ regions = {} /\ allocs = 0 /\ reg = NoReg       \* nothing allocated, nothing registered
  /\ phase' = "err"
  /\ UNCHANGED <<lc, asked, regions, allocs, reg, zeroed>>

\* returned exactly once with the address, pointer and page count it was allocated with
DmaDealloc(pa, pages, vaOk, ap) ==
  /\ phase \in {"ok", "dropped", "allocfail"}
  /\ vaOk /\ ap = lc.ap
  /\ \E r \in regions : r.pa = pa /\ r.pages = pages /\ regions' = regions \ {r}
  /\ phase' = (IF phase = "allocfail" THEN "allocfail" ELSE "dropped")
  /\ UNCHANGED <<lc, asked, allocs, reg, zeroed>>

LifeEnd ==
  /\ phase \in {"err", "dropped"}
  /\ regions = {}
  /\ UNCHANGED lvars

-----------------------------------------------------------------------------
(* The crate's computation, transcribed from src/queue.rs and src/lib.rs *)
CrateAlignUp(x) == ((x + PAGE) \div PAGE) * PAGE          \* (size + PAGE_SIZE) & !(PAGE_SIZE - 1)
CratePages(x)   == (x + PAGE - 1) \div PAGE
CrateLegacy(n, base) ==
  LET d == DescBytes(n) a == AvailBytes(n) u == UsedBytes(n)
      size == CrateAlignUp(d + a) + CrateAlignUp(u) IN
  [regions |-> {[pa |-> base, pages |-> size \div PAGE, dir |-> "Both"]},
   desc |-> base, avail |-> WAddNat(base, d), used |-> WAddNat(base, CrateAlignUp(d + a))]
CrateModern(n, base1, base2) ==
  LET d == DescBytes(n) a == AvailBytes(n) u == UsedBytes(n) IN
  [regions |-> {[pa |-> base1, pages |-> CratePages(d + a), dir |-> "ToDevice"],
                [pa |-> base2, pages |-> CratePages(u), dir |-> "FromDevice"]},
   desc |-> base1, avail |-> WAddNat(base1, d), used |-> base2]
=============================================================================
