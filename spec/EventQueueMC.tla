---------------------------- MODULE EventQueueMC ----------------------------
(* OwningQueue::poll transcribed (peek, pop, hand out [..len], re-add under the same token)
   against EventQueue.tla: queue size QN, any completion order, bursts up to QN between polls,
   written lengths 0..Cap, at least 3*QN events.  Bug = "no_readd_on_error": a poll whose handler
   fails returns without re-posting the buffer (must be refused). *)
EXTENDS EventQueue
CONSTANTS QN, Cap, Bug
VARIABLES pc, events
mvars == <<evars, pc, events>>
MCInit == EInit([n |-> QN, cap |-> Cap, q |-> 0, ready |-> FALSE]) /\ pc = "new" /\ events = 0
Free == CHOOSE t \in 0..QN-1 : t \notin posted
Driver ==
  \/ pc = "new" /\ Call([op |-> "new"]) /\ pc' = "stock" /\ UNCHANGED events
  \/ pc = "stock" /\ Cardinality(posted) < QN /\ Post(Free) /\ UNCHANGED <<pc, events>>
  \/ pc = "stock" /\ Cardinality(posted) = QN /\ Ret([got |-> FALSE]) /\ pc' = "idle" /\ UNCHANGED events
  \/ pc = "idle" /\ Call([op |-> "poll"]) /\ pc' = "peek" /\ UNCHANGED events
  \/ pc = "peek" /\ doneq = <<>> /\ Ret([got |-> FALSE]) /\ pc' = "idle" /\ UNCHANGED events
  \/ pc = "peek" /\ doneq # <<>> /\ Pop(Head(doneq).tok, Head(doneq).len) /\ pc' = "handler" /\ UNCHANGED events
  \* the handler may succeed or fail; the buffer goes back either way
  \/ /\ pc = "handler"
     /\ \E fails \in BOOLEAN :
           IF fails /\ Bug = "no_readd_on_error" THEN UNCHANGED evars /\ pc' = "ret"
           ELSE Post(cur.tok) /\ pc' = "ret"
     /\ UNCHANGED events
  \/ pc = "ret" /\ Ret([got |-> TRUE, len |-> cur.len, dg |-> cur.dg]) /\ pc' = "idle" /\ UNCHANGED events
Device == /\ events < 3 * QN
          /\ \E t \in posted, len \in 0..Cap : ~Pending(t) /\ DevEvent(t, len, "d")
          /\ events' = events + 1 /\ UNCHANGED pc
MCNext == Driver \/ Device
MCSpec == MCInit /\ [][MCNext]_mvars
NeverBlocked == pc # "idle" => ENABLED Driver
=============================================================================
