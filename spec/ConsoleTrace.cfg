SPECIFICATION TraceSpec
INVARIANTS NothingLost StreamAccounted
POSTCONDITION TraceAccepted
CHECK_DEADLOCK FALSE
