-------------------------------- MODULE Vsock --------------------------------
(***************************************************************************)
(* C17 / C18: the socket connection manager over the vsock driver.         *)
(*                                                                         *)
(* State: the connection table keyed by (peer cid, peer port, local port), *)
(* the listening ports, per connection both credit windows with            *)
(* free-running 32-bit counters (two 16-bit limbs - TLC integers are only  *)
(* 31 bits), the receive ring's fill level, and position-coded byte        *)
(* streams.  Actions: public calls and results, every packet the driver    *)
(* puts on the transmit queue (decoded), every packet the peer delivers,   *)
(* the receive queue's add/pop.  Guards are the properties.                *)
(***************************************************************************)
EXTENDS Wide, FiniteSets, TLC

HDR == 44
SB(p) == (p * 7 + 3) % 256

VARIABLES
  vcfg,      \* [cid, cap, qsize]
  conns,     \* key |-> connection record
  listening, \* set of local ports
  rxq,       \* packets the device has delivered into receive buffers, oldest first
  posted,    \* number of receive buffers posted
  call,      \* public call in progress (with the transmit packets it still owes / has sent)
  txlog      \* transmit packets of the call in progress, in order
vvars == <<vcfg, conns, listening, rxq, posted, call, txlog>>
None == [op |-> "none"]
Z == <<0, 0>>

VInit(c) == vcfg = c /\ conns = <<>> /\ listening = {} /\ rxq = <<>> /\ posted = 0 /\ call = None /\ txlog = <<>>
VReset(c) == vcfg' = c /\ conns' = <<>> /\ listening' = {} /\ rxq' = <<>> /\ posted' = 0 /\ call' = None /\ txlog' = <<>>

Key(cid, port, lport) == <<cid, port, lport>>
NewConn == [est |-> FALSE, psd |-> FALSE, txCnt |-> Z, pba |-> Z, pfc |-> Z, pend |-> FALSE,
            fwd |-> Z, buffered |-> 0,
            segs |-> <<>>]      \* unread data as runs [first, len]: byte i of a run is first + 7i mod 256

\* ---- byte streams as runs <<first, len>>
NextOf(run) == (run[1] + 7 * (run[2] % 256)) % 256
RECURSIVE TakeBytes(_, _), DropBytes(_, _), Norm(_)
TakeBytes(sg, n) == IF n = 0 \/ sg = <<>> THEN <<>>
                    ELSE IF sg[1][2] <= n THEN <<sg[1]>> \o TakeBytes(Tail(sg), n - sg[1][2])
                    ELSE <<<<sg[1][1], n>>>>
DropBytes(sg, n) == IF n = 0 \/ sg = <<>> THEN sg
                    ELSE IF sg[1][2] <= n THEN DropBytes(Tail(sg), n - sg[1][2])
                    ELSE <<<<(sg[1][1] + 7 * (n % 256)) % 256, sg[1][2] - n>>>> \o Tail(sg)
\* merge neighbouring runs that continue each other
Norm(sg) == IF Len(sg) <= 1 THEN sg
            ELSE IF sg[2][1] = NextOf(sg[1]) THEN Norm(<<<<sg[1][1], sg[1][2] + sg[2][2]>>>> \o SubSeq(sg, 3, Len(sg)))
            ELSE <<sg[1]>> \o Norm(Tail(sg))

\* C17: payload in flight towards the peer never exceeds the free space it last advertised
PeerFree(c) == WSub(c.pba, WSub(c.txCnt, c.pfc))
Fits(c, n) == WLe(WFromNat(n, 2), PeerFree(c))

\* ---- transmit packets: what every packet of connection k must carry
OP_REQUEST == 1  OP_RESPONSE == 2  OP_RST == 3  OP_SHUTDOWN == 4  OP_RW == 5  OP_CREDIT_UPDATE == 6  OP_CREDIT_REQUEST == 7

Carries(p, k, c, opc, len) ==
  /\ p.src_cid = vcfg.cid /\ p.dst_cid = k[1] /\ p.dst_port = k[2] /\ p.src_port = k[3]   \* addressing
  /\ p.type = 1                                                                          \* stream
  /\ p.op = opc /\ p.len = len /\ p.body_len = len
  /\ p.bal = WFromNat(vcfg.cap, 2)                                                       \* current buffer allocation
  /\ p.fcl = c.fwd                                                                       \* current forward count

DevTx(p) ==
  /\ call # None
  /\ txlog' = Append(txlog, p)
  /\ UNCHANGED <<vcfg, conns, listening, rxq, posted, call>>

\* ---- the peer / device side
PeerPkt(p) ==
  /\ rxq' = Append(rxq, p)
  /\ UNCHANGED <<vcfg, conns, listening, posted, call, txlog>>
RxAdd == posted' = posted + 1 /\ UNCHANGED <<vcfg, conns, listening, rxq, call, txlog>>
RxPop == posted > 0 /\ posted' = posted - 1 /\ UNCHANGED <<vcfg, conns, listening, rxq, call, txlog>>

\* ---- public calls
Call(c) == call = None /\ call' = c /\ txlog' = <<>> /\ UNCHANGED <<vcfg, conns, listening, rxq, posted>>

Remove(k) == [x \in DOMAIN conns \ {k} |-> conns[x]]
Err(r, e) == ~r.ok /\ r.err = e
NoTx == txlog = <<>>
OneTx(k, c, opc, len) == Len(txlog) = 1 /\ Carries(txlog[1], k, c, opc, len)

\* update of the stored credit information from a received header
Credit(c, p) == [c EXCEPT !.pba = p.bal, !.pfc = p.fcl,
                          !.pend = IF p.op = OP_CREDIT_UPDATE THEN FALSE ELSE @]

\* what poll must do with the oldest delivered packet p; r is the logged result
PollOutcome(p, r) ==
  LET k == Key(p.src_cid, p.src_port, p.dst_port)
      known == k \in DOMAIN conns /\ p.dst_cid = vcfg.cid IN
  IF p.used_len < HDR \/ p.len > p.used_len - HDR
  THEN Err(r, "BufferTooShort") /\ NoTx /\ UNCHANGED <<conns>>
  ELSE IF p.op > 7 THEN Err(r, "UnknownOperation") /\ NoTx /\ UNCHANGED conns
  ELSE IF p.op = 0 THEN Err(r, "InvalidOperation") /\ NoTx /\ UNCHANGED conns
  ELSE IF p.op # OP_RW /\ p.len # 0 THEN Err(r, "UnexpectedDataInPacket") /\ NoTx /\ UNCHANGED conns
  ELSE IF ~known
  THEN IF p.op = OP_REQUEST /\ p.dst_cid = vcfg.cid
       THEN LET c == Credit(NewConn, p) IN
            IF p.dst_port \in listening
            THEN \* accepted and reported
                 /\ r.ok /\ r.ev = "ConnectionRequest"
                 /\ OneTx(k, c, OP_RESPONSE, 0)
                 /\ conns' = (k :> [c EXCEPT !.est = TRUE]) @@ conns
            ELSE \* reset and not reported, no state
                 /\ r.ok /\ r.ev = "none"
                 /\ OneTx(k, c, OP_RST, 0)
                 /\ UNCHANGED conns
       ELSE \* matches no known connection: no state, nothing delivered
            r.ok /\ r.ev = "none" /\ NoTx /\ UNCHANGED conns
  ELSE LET c == Credit(conns[k], p) IN
       CASE p.op = OP_REQUEST ->
              IF p.dst_port \in listening
              THEN r.ok /\ r.ev = "ConnectionRequest" /\ OneTx(k, c, OP_RESPONSE, 0)
                   /\ conns' = [conns EXCEPT ![k] = [c EXCEPT !.est = TRUE]]
              ELSE r.ok /\ r.ev = "none" /\ OneTx(k, c, OP_RST, 0) /\ conns' = Remove(k)
         [] p.op = OP_RESPONSE ->
              r.ok /\ r.ev = "Connected" /\ NoTx /\ conns' = [conns EXCEPT ![k] = [c EXCEPT !.est = TRUE]]
         [] p.op = OP_RW ->
              IF p.len > vcfg.cap - c.buffered
              THEN \* the peer ignored our credit
                   Err(r, "OutputBufferTooShort") /\ NoTx /\ conns' = [conns EXCEPT ![k] = c]
              ELSE /\ r.ok /\ r.ev = "Received" /\ r.len = p.len /\ NoTx
                   /\ p.len > 0 => p.affine
                   /\ conns' = [conns EXCEPT ![k] = [c EXCEPT !.buffered = @ + p.len,
                                      !.segs = IF p.len > 0 THEN Append(@, <<p.first, p.len>>) ELSE @]]
         [] p.op \in {OP_RST, OP_SHUTDOWN} ->
              /\ r.ok /\ r.ev = "Disconnected" /\ r.reason = (IF p.op = OP_RST THEN "Reset" ELSE "Shutdown")
              /\ IF c.buffered = 0
                 THEN \* nothing left to read: closed now (answering a shutdown with a reset)
                      /\ (IF p.op = OP_SHUTDOWN THEN OneTx(k, c, OP_RST, 0) ELSE NoTx)
                      /\ conns' = Remove(k)
                 ELSE \* buffered data stays readable
                      NoTx /\ conns' = [conns EXCEPT ![k] = [c EXCEPT !.psd = TRUE]]
         [] p.op = OP_CREDIT_REQUEST ->
              r.ok /\ r.ev = "none" /\ OneTx(k, c, OP_CREDIT_UPDATE, 0) /\ conns' = [conns EXCEPT ![k] = c]
         [] p.op = OP_CREDIT_UPDATE ->
              r.ok /\ r.ev = "CreditUpdate" /\ NoTx /\ conns' = [conns EXCEPT ![k] = c]
         [] OTHER -> FALSE

\* events report the peer address, local port and the peer's buffer status
EventFields(p, r) == (r.ok /\ r.ev # "none") =>
  /\ r.src_cid = p.src_cid /\ r.src_port = p.src_port /\ r.dst_cid = p.dst_cid /\ r.dst_port = p.dst_port
  /\ r.bal = p.bal /\ r.fcl = p.fcl

Ret(r) ==
  /\ call # None
  /\ LET k == IF "cid" \in DOMAIN call THEN Key(call.cid, call.port, call.lport) ELSE <<0, 0, 0>>
         has == k \in DOMAIN conns IN
     CASE call.op = "listen" -> listening' = listening \cup {call.lport} /\ NoTx /\ UNCHANGED <<conns, rxq>>
       [] call.op = "unlisten" -> listening' = listening \ {call.lport} /\ NoTx /\ UNCHANGED <<conns, rxq>>
       [] call.op = "connect" ->
            /\ IF has THEN Err(r, "ConnectionExists") /\ NoTx /\ UNCHANGED conns
               ELSE r.ok /\ OneTx(k, NewConn, OP_REQUEST, 0) /\ conns' = (k :> NewConn) @@ conns
            /\ UNCHANGED <<listening, rxq>>
       [] call.op = "send" ->
            /\ IF ~has THEN Err(r, "NotConnected") /\ NoTx /\ UNCHANGED conns
               ELSE IF conns[k].psd THEN Err(r, "PeerSocketShutdown") /\ NoTx /\ UNCHANGED conns
               ELSE IF Fits(conns[k], call.n)
               THEN /\ r.ok /\ OneTx(k, conns[k], OP_RW, call.n)
                    /\ call.n > 0 => txlog[1].dg = call.dg                     \* exactly the caller's bytes
                    /\ conns' = [conns EXCEPT ![k].txCnt = WAdd(@, WFromNat(call.n, 2))]
               ELSE \* refused; a single credit request until a credit update arrives
                    /\ Err(r, "InsufficientBufferSpaceInPeer")
                    /\ IF conns[k].pend THEN NoTx ELSE OneTx(k, conns[k], OP_CREDIT_REQUEST, 0)
                    /\ conns' = [conns EXCEPT ![k].pend = TRUE]
            /\ UNCHANGED <<listening, rxq>>
       [] call.op = "recv" ->
            /\ IF ~has THEN Err(r, "NotConnected") /\ NoTx /\ UNCHANGED conns
               ELSE LET c == conns[k]
                        n == IF call.n < c.buffered THEN call.n ELSE c.buffered
                        c2 == [c EXCEPT !.buffered = @ - n, !.segs = DropBytes(@, n),
                                        !.fwd = WAdd(@, WFromNat(n, 2))] IN      \* forwarded when read
                    /\ r.ok /\ r.n = n
                    /\ Norm(TakeBytes(c.segs, n)) = Norm(r.runs)                  \* exactly the bytes sent, in order
                    /\ IF c.psd /\ c2.buffered = 0
                       THEN OneTx(k, c2, OP_RST, 0) /\ conns' = Remove(k)        \* drained after peer shutdown
                       ELSE NoTx /\ conns' = [conns EXCEPT ![k] = c2]
            /\ UNCHANGED <<listening, rxq>>
       [] call.op = "available" ->
            /\ IF ~has THEN Err(r, "NotConnected") ELSE r.ok /\ r.n = conns[k].buffered
            /\ NoTx /\ UNCHANGED <<conns, listening, rxq>>
       [] call.op = "established" ->
            /\ IF ~has THEN Err(r, "NotConnected") ELSE r.ok /\ r.b = conns[k].est
            /\ NoTx /\ UNCHANGED <<conns, listening, rxq>>
       [] call.op = "update_credit" ->
            /\ IF ~has THEN Err(r, "NotConnected") /\ NoTx
               ELSE IF conns[k].psd THEN Err(r, "PeerSocketShutdown") /\ NoTx
               ELSE r.ok /\ OneTx(k, conns[k], OP_CREDIT_UPDATE, 0)
            /\ UNCHANGED <<conns, listening, rxq>>
       [] call.op = "shutdown" ->
            /\ IF ~has THEN Err(r, "NotConnected") /\ NoTx
               ELSE r.ok /\ OneTx(k, conns[k], OP_SHUTDOWN, 0) /\ txlog[1].flags = 3
            /\ UNCHANGED <<conns, listening, rxq>>
       [] call.op = "force_close" ->
            /\ IF ~has THEN Err(r, "NotConnected") /\ NoTx /\ UNCHANGED conns
               ELSE r.ok /\ OneTx(k, conns[k], OP_RST, 0) /\ conns' = Remove(k)
            /\ UNCHANGED <<listening, rxq>>
       [] call.op = "poll" ->
            /\ IF call.popped = 0
               THEN r.ok /\ r.ev = "none" /\ NoTx /\ UNCHANGED <<conns, rxq>>
               ELSE /\ rxq # <<>> /\ PollOutcome(Head(rxq), r) /\ EventFields(Head(rxq), r)
                    /\ rxq' = Tail(rxq)
            /\ UNCHANGED listening
       [] OTHER -> FALSE
  /\ call' = None /\ txlog' = <<>>
  /\ UNCHANGED <<vcfg, posted>>

\* poll consumed a receive buffer (so the result is about the oldest delivered packet)
PollPopped == call.op = "poll" /\ call' = [call EXCEPT !.popped = 1] /\ UNCHANGED <<vcfg, conns, listening, rxq, posted, txlog>>

\* C18/C19: whatever the outcome, every receive buffer is back with the device after a call
Stocked == (call = None /\ vcfg.ready) => posted = vcfg.qsize
\* C17: the credit we advertise never overstates the free space of the receive ring
NoOverAdvertise == \A k \in DOMAIN conns : conns[k].buffered <= vcfg.cap
=============================================================================
