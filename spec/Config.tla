------------------------------- MODULE Config -------------------------------
(***************************************************************************)
(* C13 (second half): values assembled from several configuration reads    *)
(* equal a value the device exposed under a single configuration           *)
(* generation, even if the device changes its configuration between the    *)
(* individual reads.                                                       *)
(*                                                                         *)
(* The device holds one snapshot at a time (identified by a small id; all  *)
(* bytes of the fields a reader looks at are derived from the id) and may  *)
(* replace it at any instant, bumping the generation.  A reader call       *)
(* returns parts; the property: all parts carry the same snapshot id, and  *)
(* that snapshot was current at some instant during the call.              *)
(***************************************************************************)
EXTENDS Integers, Sequences, FiniteSets, TLC

VARIABLES gen, snap, inCall, existed
cvars == <<gen, snap, inCall, existed>>

CInit(g, s) == gen = g /\ snap = s /\ inCall = FALSE /\ existed = {}
CReset(g, s) == gen' = g /\ snap' = s /\ inCall' = FALSE /\ existed' = {}

CallBegin == ~inCall /\ inCall' = TRUE /\ existed' = {snap} /\ UNCHANGED <<gen, snap>>

\* the device replaces its configuration: new snapshot, different generation
DevUpdate(g, s) ==
  /\ g # gen
  /\ gen' = g /\ snap' = s
  /\ existed' = IF inCall THEN existed \cup {s} ELSE existed
  /\ UNCHANGED inCall

\* individual accesses the device serves (it answers with its current state)
GenRead(v)  == v = gen /\ UNCHANGED cvars
FieldRead   == UNCHANGED cvars

\* parts: the snapshot id carried by each byte / field of the returned value
CallEnd(parts) ==
  /\ inCall
  /\ \E s \in existed : \A i \in 1..Len(parts) : parts[i] = s
  /\ inCall' = FALSE /\ existed' = {}
  /\ UNCHANGED <<gen, snap>>
=============================================================================
