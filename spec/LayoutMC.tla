------------------------------ MODULE LayoutMC ------------------------------
(* The crate's layout computation satisfies the property for every supported size, both
   layouts and a set of region bases (page aligned, low / high / near the top of the space). *)
EXTENDS Layout

Sizes == {1, 2, 4, 8, 16, 32, 64, 128, 256, 512, 1024, 2048, 4096, 8192, 16384, 32768}
Bases == { <<0, 16, 0, 0>>, <<4096, 4660, 18, 0>>, <<0, 0, 0, 32768>>, <<61440, 65535, 65535, 0>> }

ASSUME \A n \in Sizes, b \in Bases :
          LET L == CrateLegacy(n, b) IN AreasOK(n, TRUE, L.regions, L.desc, L.avail, L.used)
ASSUME \A n \in Sizes, b1 \in Bases, b2 \in Bases :
          (b1 # b2 /\ Disjoint(b1, 1048576, b2, 1048576)) =>
          LET L == CrateModern(n, b1, b2) IN AreasOK(n, FALSE, L.regions, L.desc, L.avail, L.used)
\* vacuity guards: deliberately wrong layouts are refused by the property
Pad4(x) == (4 - (x % 4)) % 4
ASSUME \A n \in Sizes :
          LET L == CrateLegacy(n, <<0, 16, 0, 0>>)
          IN  ~AreasOK(n, TRUE, L.regions, L.desc, L.avail, WAddNat(L.avail, AvailBytes(n) + Pad4(AvailBytes(n))))
ASSUME \A n \in Sizes : LET L == CrateModern(n, <<0, 16, 0, 0>>, <<0, 32, 0, 0>>) IN
          ~AreasOK(n, FALSE, {[pa |-> <<0, 16, 0, 0>>, pages |-> CratePages(DescBytes(n) + AvailBytes(n)), dir |-> "FromDevice"],
                              [pa |-> <<0, 32, 0, 0>>, pages |-> CratePages(UsedBytes(n)), dir |-> "ToDevice"]},
                   L.desc, L.avail, L.used)
\* 18n+6 and 8n+6 are never multiples of the page size, so the crate's unusual align_up (which
\* rounds an exact multiple up by a whole page) is harmless for power-of-two sizes
ASSUME \A n \in Sizes : (DescBytes(n) + AvailBytes(n)) % PAGE # 0 /\ UsedBytes(n) % PAGE # 0

\* the life-cycle machine with the crate's computation, every answer of the transport
Answers == { <<u, m>> : u \in BOOLEAN, m \in {0, 1, 2, 4, 32768, 65536} }
MCInit == \E n \in {1, 4, 32768}, lg \in BOOLEAN, a \in Answers :
             LInit([n |-> n, legacy |-> lg, ap |-> FALSE, inUse |-> a[1], max |-> a[2]])
B1 == <<0, 16, 0, 0>>
B2 == <<0, 32, 7, 0>>
Plan == IF lc.legacy THEN CrateLegacy(lc.n, B1) ELSE CrateModern(lc.n, B1, B2)
MCNext ==
  \/ "used" \notin asked /\ AnswerUsed(lc.inUse)
  \/ "used" \in asked /\ ~lc.inUse /\ "max" \notin asked /\ AnswerMax(lc.max)
  \/ "used" \in asked /\ lc.inUse /\ NewErr("AlreadyUsed")
  \/ "max" \in asked /\ lc.max < lc.n /\ NewErr("InvalidParam")
  \/ /\ "max" \in asked /\ ~Refused /\ reg = NoReg
     /\ \E r \in Plan.regions \ regions :
           /\ \A r2 \in Plan.regions \ regions : ~WLt(r2.pa, r.pa)    \* in address order
           /\ DmaAlloc(r.pa, r.pages, r.dir, lc.ap)
  \/ regions = Plan.regions /\ QueueSet(lc.n, Plan.desc, Plan.avail, Plan.used)
  \/ reg # NoReg /\ ~zeroed /\ RingsObserved(TRUE)
  \/ NewOk
  \/ \E r \in regions : DmaDealloc(r.pa, r.pages, TRUE, lc.ap)
  \/ LifeEnd
MCSpec == MCInit /\ [][MCNext]_lvars
\* the constructor always comes to a result, and a dropped queue has returned everything
Progress == phase = "new" => ENABLED MCNext
DropComplete == (phase = "dropped" /\ regions = {}) => ENABLED LifeEnd
=============================================================================
