--------------------------- MODULE VirtQueueTrace ---------------------------
(***************************************************************************)
(* Trace validation (Binding A) for VirtQueue.tla.                         *)
(*                                                                         *)
(* The harness (`vh`) records one NDJSON event per linearization point of  *)
(* the real `VirtQueue` built from /repo: public call and return, every    *)
(* Hal::share / unshare with its arguments, every device-visible store     *)
(* (read back from queue memory at the hook, i.e. what a device would      *)
(* see), the fence, and every step of the reference device.  Each event    *)
(* must be explained by the property-level action of the same name with    *)
(* the logged arguments; all invariants are evaluated after every event.   *)
(* A file holds many scenarios, each introduced by a Reset event.          *)
(***************************************************************************)
EXTENDS VirtQueue, Json, IOUtils

Rec == ndJsonDeserialize(IOEnv.TRACE)

VARIABLES l,      \* index of the next event to explain
          pn      \* obligation left by the last should_notify of a driver-owned queue:
                  \* "must" - the next event has to be the notification; "mustnot"; "free"

tvars == <<vars, l, pn>>

Ev == Rec[l]
Is(name) == l <= Len(Rec) /\ Rec[l].e = name /\ l' = l + 1

Has(r, f) == f \in DOMAIN r

ToBufs(bs) == [i \in 1..Len(bs) |-> [va |-> bs[i].va, len |-> bs[i].len, dir |-> bs[i].dir]]
ToDesc(d)  == [addr |-> d.addr, len |-> d.len, flags |-> d.flags, next |-> d.next]
ToImage(t) == [i \in 1..Len(t) |-> ToDesc(t[i])]
ToElems(s) == [i \in 1..Len(s) |-> [pa |-> s[i].pa, len |-> s[i].len, w |-> s[i].w]]

TraceInit ==
  /\ l = 1 /\ pn = "free"
  /\ Init0([n |-> 1, indirect |-> FALSE, eventIdx |-> FALSE, ap |-> FALSE])

\* a queue is created with exactly the mechanisms the scenario asked for
TReset == /\ Is("Reset")
          /\ ResetTo([n |-> Ev.n, indirect |-> Ev.ind, eventIdx |-> Ev.ev, ap |-> Ev.ap,
                      adv |-> Has(Ev, "adv") /\ Ev.adv, inplace |-> Has(Ev, "inplace") /\ Ev.inplace])

\* C06: rings are zeroed when the queue is registered
TInitLinks == Is("InitLinks") /\ Ev.rings_zero /\ Ev.n = N /\ UNCHANGED vars

TAddCall == Is("AddCall") /\ AddCall(ToBufs(Ev.bufs), Ev.outdg)

TShare == /\ Is("Share")
          /\ IF Has(Ev, "image")
             THEN ShareTable(Ev.pa, Ev.va, Ev.len, Ev.dir, Ev.ap, ToImage(Ev.image))
             ELSE ShareBuf(Ev.pa, Ev.va, Ev.len, Ev.dir, Ev.ap)

TStore == /\ Is("Store")
          /\ CASE Ev.area = "desc"       -> StoreDesc(Ev.i, ToDesc(Ev.d))
               [] Ev.area = "ring"       -> StoreRingSlot(Ev.i, Ev.v)
               [] Ev.area = "idx"        -> PublishIdx(Ev.v)
               [] Ev.area = "flags"      -> StoreAvailFlags(Ev.v)
               [] Ev.area = "used_event" -> StoreUsedEvent(Ev.v)
               [] OTHER                  -> FALSE

TFence == Is("Fence") /\ Fence

TAddRet == /\ Is("AddRet")
           /\ IF Ev.ok THEN AddRetOk(Ev.tok) ELSE AddRetErr(Ev.err)

TPopCall == Is("PopCall") /\ PopCall(Ev.tok, Ev.outdg)
TUnshare == Is("Unshare") /\ Unshare(Ev.pa, Ev.va, Ev.len, Ev.dir, Ev.ap)
TPopRet  == /\ Is("PopRet")
            /\ IF Ev.ok THEN PopRetOk(Ev.len, Ev.outdg) ELSE PopRetErr(Ev.err)

TQuery == /\ Is("Q")
          /\ CASE Ev.op = "can_pop"       -> QueryCanPop(Ev.r)
               [] Ev.op = "peek"          -> QueryPeek(Ev.r)
               [] Ev.op = "avail_desc"    -> QueryAvailDesc(Ev.r)
               [] Ev.op = "should_notify" -> ShouldNotify(Ev.r)
               [] OTHER                   -> FALSE

TSdnCall == Is("SdnCall") /\ SetDevNotifyCall(Ev.en)
TSdnRet  == Is("SdnRet") /\ SetDevNotifyRet

\* the notification itself is a transport matter (Lifecycle.tla); here it discharges the obligation
TNotify == Is("Notify") /\ UNCHANGED vars
\* should_notify evaluated inside a driver (result not logged): C05 then speaks about what follows
TSN == Is("SN") /\ ShouldNotifyCalled

\* device steps; the recorder's own parse of the chain must agree with the specification's
TDevTake == /\ Is("DevTake")
            /\ IF Adv THEN DevTakeAny(Ev.h)
               ELSE /\ DevTake(Ev.h)
                    /\ Ev.ok
                    /\ LET p == Parse(Ev.h) IN p.ok /\ p.elems = ToElems(Ev.elems)
TDevElem == /\ Is("DevElem")
            /\ IF Has(Ev, "raw") THEN DevUsedElem(Ev.s, Ev.idn, Ev.len)
               ELSE (Adv \/ WellBehavedElem(Ev.s, Ev.id)) /\ DevUsedElem(Ev.s, Ev.id, Ev.len)
TDevIdx  == /\ Is("DevIdx")
            /\ IF Has(Ev, "raw") THEN DevUsedIdxRaw(Ev.v)
               ELSE (Adv \/ WellBehavedIdx(Ev.v, Ev.id)) /\ DevUsedIdx(Ev.v, Ev.id, Ev.wd)
TDevAvailEvent == Is("DevAvailEvent") /\ DevAvailEvent(Ev.v)
TDevFlags      == Is("DevFlags") /\ DevUsedFlags(Ev.v)
\* a misbehaving device overwrote driver-owned memory: the specification's memory is what the
\* driver wrote, and nothing the driver does afterwards may depend on the difference (C07)
TDevScribble   == Is("DevScribble") /\ UNCHANGED vars

\* C07: what a misbehaving device reads after it misreported completions is its own business
TDevBad == Is("DevBadAddress") /\ Adv /\ UNCHANGED vars

\* C07: a blocking call may wait for ever for a device that never answers
TStuck == Is("Stuck") /\ Adv /\ UNCHANGED vars

\* C07: a clean panic where the driver was handed a completion it has no chain for
TPanic == Is("Panic") /\ PopPanic

\* Quiescent-to-quiescent fast-forward: the harness ran the real queue through add/complete/pop
\* cycles without recording them (to reach interesting places of the 16-bit index space).  Only
\* allowed when nothing is outstanding; every value comes from device-visible memory.
TSkip == /\ Is("Skip")
         /\ op = NoOp /\ held = <<>> /\ shared = <<>> /\ lastUsed = usedIdx /\ devNext = idxMem
         /\ availIdx' = Ev.idx /\ idxMem' = Ev.idx /\ devNext' = Ev.idx
         /\ usedIdx' = Ev.idx /\ lastUsed' = Ev.idx /\ lastChecked' = Ev.last_checked
         /\ usedEvent' = Ev.used_event /\ availFlags' = Ev.avail_flags
         /\ usedFlags' = Ev.used_flags /\ availEvent' = Ev.avail_event
         /\ desc' = <<>> /\ ring' = <<>> /\ usedRing' = <<>> /\ wrote' = <<>> /\ devHeld' = {}
         /\ UNCHANGED <<cfg, held, op, shared>>

\* Events with no action: UnhookedStore, DevBadAddress, Panic, Stuck - each ends the match.

Other ==
  \/ TReset \/ TInitLinks
  \/ TAddCall \/ TShare \/ TStore \/ TFence \/ TAddRet
  \/ TPopCall \/ TUnshare \/ TPopRet \/ TPanic \/ TStuck
  \/ TQuery \/ TSdnCall \/ TSdnRet
  \/ TSkip
  \/ TDevTake \/ TDevElem \/ TDevIdx \/ TDevAvailEvent \/ TDevFlags \/ TDevScribble \/ TDevBad

\* device steps may fall between should_notify and the notification (the device runs concurrently)
DevOnly == TDevTake \/ TDevElem \/ TDevIdx \/ TDevAvailEvent \/ TDevFlags \/ TDevScribble \/ TDevBad

TraceNext ==
  \/ pn # "must" /\ Other /\ pn' = (IF pn = "mustnot" /\ Rec[l].e \in {"DevTake", "DevElem", "DevIdx", "DevAvailEvent", "DevFlags", "DevScribble", "DevBadAddress"} THEN "mustnot" ELSE "free")
  \/ pn = "must" /\ DevOnly /\ pn' = "must"
  \/ pn # "must" /\ TSN /\ pn' = NotifyVerdict
  \/ pn # "mustnot" /\ TNotify /\ pn' = "free"

\* C02 (action property): the index in memory only ever advances by one - except that a new
\* scenario starts from a fresh queue
TIdxMonotone == [][Rec[l].e \in {"Reset", "Skip"} \/ idxMem' = idxMem \/ idxMem' = Inc(idxMem)]_tvars

TraceSpec == TraceInit /\ [][TraceNext]_tvars

\* accepted iff every event was explained: one state per event plus the initial one
TraceAccepted ==
  LET d == TLCGet("stats").diameter IN
  IF d - 1 = Len(Rec) THEN TRUE
  ELSE /\ PrintT(<<"TRACE_REJECTED_AT", d, Rec[d]>>)
       /\ FALSE
=============================================================================
