---------------------------- MODULE ConfigTrace ----------------------------
EXTENDS Config, Json, IOUtils
Rec == ndJsonDeserialize(IOEnv.TRACE)
VARIABLE l
tvars == <<cvars, l>>
Ev == Rec[l]
Is(name) == l <= Len(Rec) /\ Rec[l].e = name /\ l' = l + 1
IsT(opn) == l <= Len(Rec) /\ Rec[l].e = "T" /\ Rec[l].op = opn /\ l' = l + 1
TraceInit == l = 1 /\ CInit(0, 0)
TReset  == Is("CfgReset") /\ CReset(Ev.gen, Ev.snap)
TCall   == Is("CfgCall") /\ CallBegin
TUpdate == Is("DevUpdate") /\ DevUpdate(Ev.gen, Ev.snap)
TGen    == IsT("cfg_gen") /\ GenRead(Ev.v)
TField  == IsT("cfg_read") /\ FieldRead
TRet    == Is("CfgRet") /\ CallEnd(Ev.parts)
TraceNext == TReset \/ TCall \/ TUpdate \/ TGen \/ TField \/ TRet
TraceSpec == TraceInit /\ [][TraceNext]_tvars
TraceAccepted ==
  LET d == TLCGet("stats").diameter IN
  IF d - 1 = Len(Rec) THEN TRUE
  ELSE /\ PrintT(<<"TRACE_REJECTED_AT", d, Rec[d]>>)
       /\ FALSE
=============================================================================
