------------------------------- MODULE Adv -------------------------------
(***************************************************************************)
(* C07 at the driver level: what must survive *any* device behaviour.      *)
(*                                                                         *)
(* The device-level meaning of the traffic is void when the device sends   *)
(* arbitrary used ids, lengths, index jumps, response bytes and             *)
(* configuration values, so this module says nothing about *what* a call   *)
(* returns.  It states what the property states:                           *)
(*   - every call ends in a result (Ret) or in a clean panic - a panic     *)
(*     raised by one of the crate's own checks; a call of a blocking API   *)
(*     may also spin for ever on a device that never answers (Stuck);      *)
(*   - no DMA region is released twice, or released with an address, size  *)
(*     or flag other than those it was allocated with;                     *)
(*   - no heap memory is freed while it is still shared with the device;   *)
(*   - no slice handed to the caller is longer than the region behind it.  *)
(* The queue-level half (descriptor recycling, share/unshare ledger, the   *)
(* driver's stores) is VirtQueue.tla with cfg.adv set, validated on the    *)
(* same runs.                                                              *)
(***************************************************************************)
EXTENDS Naturals, FiniteSets, TLC

VARIABLES
  dma,      \* live DMA regions: allocation sequence number |-> pages
  phase,    \* "run" | "panicked" | "stuck" | "dropped"
  pending,  \* name of the call in progress, or "none"
  live,     \* the device has been told DRIVER_OK and has not been reset since
  rx        \* console: receive buffers the driver has posted and not taken back

avars == <<dma, phase, pending, live, rx>>

AInit == dma = <<>> /\ phase = "run" /\ pending = "none" /\ live = FALSE /\ rx = 0
AReset == dma' = <<>> /\ phase' = "run" /\ pending' = "none" /\ live' = FALSE /\ rx' = 0

\* The console driver owns one receive buffer and posts it at most once at a time, whatever ids
\* the device reports: a completion it refuses (WrongToken) leaves the buffer posted, so it must
\* not be posted again - that would be the same memory under two tokens.
RxPost == rx = 0 /\ rx' = 1 /\ UNCHANGED <<dma, phase, pending, live>>
RxTake == rx = 1 /\ rx' = 0 /\ UNCHANGED <<dma, phase, pending, live>>

\* a write of the status register as the device saw it
Status(driverOk, reset) ==
  /\ live' = IF reset THEN FALSE ELSE (live \/ driverOk)
  /\ UNCHANGED <<dma, phase, pending, rx>>

DmaAlloc(seq, pages, failed) ==
  /\ seq \notin DOMAIN dma
  /\ dma' = IF failed THEN dma ELSE (seq :> pages) @@ dma
  /\ UNCHANGED <<phase, pending, live, rx>>

\* released exactly once, and exactly as allocated
DmaDealloc(seq, known, vaOk, pagesOk, apOk) ==
  /\ known /\ vaOk /\ pagesOk /\ apOk
  /\ seq \in DOMAIN dma
  /\ dma' = [s \in DOMAIN dma \ {seq} |-> dma[s]]
  /\ UNCHANGED <<phase, pending, live, rx>>

\* the driver object is only used while it is alive
Call(o) ==
  /\ phase = "run" /\ pending = "none"
  /\ pending' = o
  /\ UNCHANGED <<dma, phase, live, rx>>
Ret ==
  /\ phase = "run" /\ pending # "none"
  /\ pending' = "none"
  /\ UNCHANGED <<dma, phase, live, rx>>

\* a panic is acceptable only if it is one of the crate's own checks
Panic(clean) ==
  /\ clean
  /\ phase \in {"run", "panicked"}         \* (a second panic while unwinding would abort)
  /\ phase' = "panicked" /\ pending' = "none"
  /\ UNCHANGED <<dma, live, rx>>
Stuck ==
  /\ phase = "run"
  /\ phase' = "stuck" /\ pending' = "none"
  /\ UNCHANGED <<dma, live, rx>>
Drop ==
  /\ phase = "run" /\ pending = "none"
  /\ phase' = "dropped"
  /\ UNCHANGED <<dma, pending, live, rx>>

\* a slice handed to the caller lies inside the region backing it (both in pages)
Slice(lenPages, capPages) ==
  /\ lenPages <= capPages
  /\ UNCHANGED avars

\* Heap memory was freed while still shared with the device.  While the driver is in use this
\* is the device being left with access to memory the caller believes to own again; after a panic
\* or an endless wait it is the unwinding of the test process and says nothing about the crate;
\* when the driver is dropped its buffers are freed after the queues were taken from the device
\* (that order is C09's subject, Lifecycle.tla).  A device that was never told DRIVER_OK, or has
\* been reset since, is not live on any queue (the definition C09 gives): a constructor that
\* fails before DRIVER_OK drops what it built, buffers of its stocked queues included.
FreeWhileShared ==
  /\ phase \in {"panicked", "stuck", "dropped"} \/ ~live
  /\ UNCHANGED avars

TypeOK == phase \in {"run", "panicked", "stuck", "dropped"}
=============================================================================
