SPECIFICATION Spec
CONSTANTS
 IdxMod = 16
 N = 4
 Coded = "fixed"
INVARIANT TypeOK
PROPERTY NoLostWakeup
CHECK_DEADLOCK FALSE
