SPECIFICATION MCSpec
CONSTANTS
 QN = 2
 Bug = "none"
 V1 = TRUE
INVARIANTS Conservation NeverBlocked
CONSTRAINT Bounded
CHECK_DEADLOCK FALSE
