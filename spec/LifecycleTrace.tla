--------------------------- MODULE LifecycleTrace ---------------------------
(* Trace validation of driver construction / use / teardown against Lifecycle.tla *)
EXTENDS Lifecycle, Json, IOUtils, Sequences

Rec == ndJsonDeserialize(IOEnv.TRACE)
VARIABLE l
tvars == <<lvars, l>>
Ev == Rec[l]
Is(name) == l <= Len(Rec) /\ Rec[l].e = name /\ l' = l + 1
IsT(opn) == l <= Len(Rec) /\ Rec[l].e = "T" /\ Rec[l].op = opn /\ l' = l + 1
SeqToSet(s) == { s[i] : i \in 1..Len(s) }

TraceInit == l = 1 /\ LInit([dev |-> 0, offered |-> {}, legacy |-> FALSE])

TReset   == Is("LifeReset") /\ LReset([dev |-> Ev.dev, offered |-> FSet(Ev.offl), legacy |-> Ev.legacy])
TStatus  == IsT("set_status") /\ SetStatus(Ev.v)
TReadF   == IsT("read_features") /\ ReadFeatures
TWriteF  == IsT("write_features") /\ WriteFeatures(FSet(Ev.vl))
TQSet    == IsT("queue_set") /\ QueueSet(Ev.q)
TQUnset  == IsT("queue_unset") /\ QueueUnset(Ev.q)
TNotify  == IsT("notify") /\ Notify(Ev.q)
TDrop    == IsT("drop") /\ TransportDrop
\* calls that no clause of C08/C09 constrains
TOther   == /\ l <= Len(Rec) /\ Rec[l].e = "T"
            /\ Rec[l].op \in {"max_queue_size", "queue_used", "set_guest_page_size", "get_status",
                              "ack_interrupt", "cfg_gen", "cfg_read", "cfg_write"}
            /\ l' = l + 1 /\ UNCHANGED lvars
TAlloc   == Is("DmaAlloc") /\ IF Ev.failed THEN DmaAllocFail ELSE DmaAlloc(Ev.seq, Ev.pages)
THolds   == Is("RegionHolds") /\ RegionHolds(SeqToSet(Ev.seqs), Ev.q)
TFree    == Is("DmaDealloc") /\ DmaDealloc(Ev.seq, Ev.known, Ev.va_ok, Ev.pages_ok)
TFreeSh  == Is("FreeShared") /\ FreeShared(Ev.q)
TRet     == Is("NewRet") /\ IF Ev.ok THEN NewOk ELSE NewErr(Ev.err)
TEnd     == Is("LifeEnd") /\ LifeEnd
\* use of the driver between construction and drop is decided by the device-specific specs
TUse     == Is("Use") /\ UNCHANGED lvars
\* queue operations of driver-owned queues are decided by VirtQueue.tla
TQOp     == (Is("QAdd") \/ Is("QPop")) /\ UNCHANGED lvars

TraceNext == TReset \/ TStatus \/ TReadF \/ TWriteF \/ TQSet \/ TQUnset \/ TNotify \/ TDrop \/ TOther
             \/ TAlloc \/ THolds \/ TFree \/ TFreeSh \/ TRet \/ TEnd \/ TUse \/ TQOp
TraceSpec == TraceInit /\ [][TraceNext]_tvars

TraceAccepted ==
  LET d == TLCGet("stats").diameter IN
  IF d - 1 = Len(Rec) THEN TRUE
  ELSE /\ PrintT(<<"TRACE_REJECTED_AT", d, Rec[d]>>)
       /\ FALSE
=============================================================================
