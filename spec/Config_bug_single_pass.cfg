SPECIFICATION MCSpec
CONSTANTS
 NFields = 2
 MaxUpd = 1
 Bug = "single_pass"
INVARIANT NeverBlocked
PROPERTY Terminates
CHECK_DEADLOCK FALSE
