SPECIFICATION TraceSpec
INVARIANTS
  TypeOK
POSTCONDITION TraceAccepted
CHECK_DEADLOCK FALSE
