SPECIFICATION TraceSpec
INVARIANTS UsedAreOutstanding NoDuplicateCompletion
POSTCONDITION TraceAccepted
CHECK_DEADLOCK FALSE
