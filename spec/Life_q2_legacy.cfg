SPECIFICATION MCSpec
CONSTANTS
  NQ = 2
  Legacy = TRUE
  Bug = "none"
INVARIANTS DriverNeverBlocked NoLiveWithoutInit AcceptedOK Negotiated
CHECK_DEADLOCK FALSE
