SPECIFICATION MCSpec
INVARIANTS Progress DropComplete
CHECK_DEADLOCK FALSE
