---------------------------- MODULE PciBusTrace ----------------------------
EXTENDS PciBus, Json, IOUtils
Rec == ndJsonDeserialize(IOEnv.TRACE)
VARIABLE l
tvars == <<bvars, l>>
Ev == Rec[l]
Is(name) == l <= Len(Rec) /\ Rec[l].e = name /\ l' = l + 1
EmptyFn == [cmd |-> 0, regs |-> [i \in 1..6 |-> [maskl |-> Z2, flags |-> 0, regl |-> Z2]]]
TraceInit == l = 1 /\ BInit(EmptyFn)
TReset == Is("BReset") /\ BReset(Ev.fn)
TOp    == Is("Op") /\ OpBegin(Ev)
TCfg   == Is("Cfg") /\ IF Ev.rw = "r" THEN CfgRead ELSE CfgWrite(Ev.off, Ev.vl)
TEnd   == Is("OpEnd") /\ OpEnd(Ev.res, Ev.after)
TCamR  == Is("CReset") /\ UNCHANGED bvars
TCam   == Is("CamSample") /\ CamSampleOK(Ev.cam, Ev.b, Ev.d, Ev.f, Ev.r, Ev.offl) /\ UNCHANGED bvars
TCamX  == Is("CamExhaustive") /\ Ev.mismatches = 0 /\ UNCHANGED bvars
TEnum  == Is("Enumerate") /\ EnumerateOK(Ev.present, Ev.found) /\ UNCHANGED bvars
TCaps  == Is("Caps") /\ CapsOK(Ev.chain, Ev.found) /\ UNCHANGED bvars
TraceNext == TReset \/ TOp \/ TCfg \/ TEnd \/ TCamR \/ TCam \/ TCamX \/ TEnum \/ TCaps
TraceSpec == TraceInit /\ [][TraceNext]_tvars
TraceAccepted ==
  LET d == TLCGet("stats").diameter IN
  IF d - 1 = Len(Rec) THEN TRUE
  ELSE /\ PrintT(<<"TRACE_REJECTED_AT", d, Rec[d]>>)
       /\ FALSE
=============================================================================
