------------------------------ MODULE PciTrace ------------------------------
EXTENDS Pci, Json, IOUtils
Rec == ndJsonDeserialize(IOEnv.TRACE)
VARIABLE l
tvars == <<pvars, l>>
Ev == Rec[l]
Is(name) == l <= Len(Rec) /\ Rec[l].e = name /\ l' = l + 1
TraceInit == l = 1 /\ PInit
TNReset == Is("PciReset") /\ pcfg' = NoCfg /\ maps' = <<>> /\ op' = NoOp /\ acc' = <<>> /\ selected' = -1 /\ UNCHANGED pdev
TCfg    == Is("PciCfg") /\ PciCfg(Ev.caps, Ev.bars)
TMap    == Is("PhysToVirt") /\ PhysToVirt(Ev.pal, Ev.sizel)
TNewRet == Is("PciNewRet") /\ PciNewRet(Ev.is_ok, Ev.is_panic, Ev.unchanged, Ev.writes_while_decoding)
\* dropping a freshly constructed transport: accesses only inside what was mapped
TDrop   == Is("PciDrop") /\ UNCHANGED pvars
TDropE  == Is("PciDropEnd") /\ UNCHANGED pvars
\* ("suitably aligned for its use": every access the transport makes is naturally aligned)
TAdhoc  == Is("M") /\ Ev.sp = "adhoc" /\ AccInWindow(Ev.off, Ev.w, Ev.pal)
           /\ (Ev.pal[1] + Ev.off) % Ev.w = 0 /\ UNCHANGED pvars
TPReset == Is("PReset") /\ PReset(Ev)
TAcc    == Is("M") /\ Ev.sp # "adhoc" /\ Acc(Ev.sp, Ev.rw, Ev.off, Ev.w, Ev.vl)
TOp     == Is("Op") /\ OpBegin(Ev)
TEnd    == Is("OpEnd") /\ OpEnd(Ev)
TraceNext == TNReset \/ TCfg \/ TMap \/ TNewRet \/ TDrop \/ TDropE \/ TAdhoc \/ TPReset \/ TAcc \/ TOp \/ TEnd
TraceSpec == TraceInit /\ [][TraceNext]_tvars
TraceAccepted ==
  LET d == TLCGet("stats").diameter IN
  IF d - 1 = Len(Rec) THEN TRUE
  ELSE /\ PrintT(<<"TRACE_REJECTED_AT", d, Rec[d]>>)
       /\ FALSE
=============================================================================
