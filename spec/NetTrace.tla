------------------------------ MODULE NetTrace ------------------------------
EXTENDS Net, Json, IOUtils
Rec == ndJsonDeserialize(IOEnv.TRACE)
VARIABLE l
tvars == <<nvars, l>>
Ev == Rec[l]
Is(name) == l <= Len(Rec) /\ Rec[l].e = name /\ l' = l + 1
TraceInit == l = 1 /\ NInit([hdr |-> 12, n |-> 0, mode |-> "raw", ind |-> FALSE, ready |-> FALSE])
TReset == Is("NetReset") /\ NReset([hdr |-> Ev.hdr, n |-> Ev.n, mode |-> Ev.mode, ind |-> Ev.ind, ready |-> FALSE])
TCall  == Is("Call") /\ Call(Ev)
TRet   == Is("Ret") /\ Ret(Ev)
TQAdd  == Is("QAdd") /\ IF Ev.q = 0 THEN RxAdd(Ev.tok) ELSE TxAdd
TQPop  == Is("QPop") /\ IF Ev.q = 0 THEN RxPop(Ev.tok, Ev.len) ELSE TxPop
TRx    == Is("DevRx") /\ DevRx(Ev.tok, Ev.flen, Ev.dg)
TTx    == Is("DevTx") /\ DevTx(Ev.len, Ev.hdr_zero, Ev.dg, Ev.rl, Ev.wl)
TDrop  == Is("Drop") /\ call = None /\ UNCHANGED nvars
TraceNext == TReset \/ TCall \/ TRet \/ TQAdd \/ TQPop \/ TRx \/ TTx \/ TDrop
TraceSpec == TraceInit /\ [][TraceNext]_tvars
TraceAccepted ==
  LET d == TLCGet("stats").diameter IN
  IF d - 1 = Len(Rec) THEN TRUE
  ELSE /\ PrintT(<<"TRACE_REJECTED_AT", d, Rec[d]>>)
       /\ FALSE
=============================================================================
