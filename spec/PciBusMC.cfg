INIT Init
NEXT Next
