SPECIFICATION TraceSpec
INVARIANTS Stocked NoOverAdvertise
POSTCONDITION TraceAccepted
CHECK_DEADLOCK FALSE
