INIT Init
NEXT Next
