SPECIFICATION TraceSpec
CONSTANTS
  IdxMod = 65536
  ZeroAddr = "0x0"
INVARIANTS
  TypeOK
  C01_Disjoint
  C01_HeldDescribed
  C02_PublishedComplete
  C02_IdxAgrees
  C03_Outstanding
  C04_Ledger
  C04_NoBoth
  C05_Rearmed
PROPERTIES
  TIdxMonotone
POSTCONDITION TraceAccepted
CHECK_DEADLOCK FALSE
