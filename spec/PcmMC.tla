------------------------------- MODULE PcmMC -------------------------------
(***************************************************************************)
(* VirtIOSound::pcm_xfer transcribed (sound.rs): a ring of `Cap` slots     *)
(* with head/tail indices, chunks of at most `Period` bytes added while    *)
(* descriptors are available, completions popped with the token at `tail`, *)
(* every status checked.  Against a device that completes the outstanding  *)
(* chains in submission order (InOrder = TRUE: the property holds) or in   *)
(* any order (InOrder = FALSE: the helper returns WrongToken with chains   *)
(* still posted - known finding D11, kept as a negative configuration).    *)
(***************************************************************************)
EXTENDS Integers, Sequences, FiniteSets, TLC
CONSTANTS Frames, Period, Cap, InOrder
VARIABLES sent,      \* bytes of the caller's frames handed to the device so far
          posted,    \* sequence of [tok, off, len] outstanding, in submission order
          usedq,     \* tokens completed by the device, in completion order
          head, tail, toks, pc, result, free
vars == <<sent, posted, usedq, head, tail, toks, pc, result, free>>
Chunks == (Frames + Period - 1) \div Period
Init == /\ sent = 0 /\ posted = <<>> /\ usedq = <<>> /\ head = 0 /\ tail = 0 /\ toks = [i \in 0..Cap-1 |-> -1]
        /\ pc = "loop" /\ result = "none" /\ free = Cap
NextTok == CHOOSE t \in 0..Cap : \A i \in 1..Len(posted) : posted[i].tok # t
Driver ==
  \* add the next chunk if a slot is free
  \/ /\ pc = "loop" /\ free >= 1 /\ sent < Frames
     /\ LET len == IF Frames - sent < Period THEN Frames - sent ELSE Period
            t == NextTok IN
        /\ posted' = Append(posted, [tok |-> t, off |-> sent, len |-> len])
        /\ toks' = [toks EXCEPT ![head] = t]
        /\ sent' = sent + len
     /\ head' = (head + 1) % Cap /\ free' = free - 1 /\ pc' = "pop"
     /\ UNCHANGED <<usedq, tail, result>>
  \/ /\ pc = "loop" /\ (free = 0 \/ sent = Frames)
     /\ (IF sent = Frames /\ head = tail /\ free = Cap THEN pc' = "done" /\ result' = "Ok" ELSE pc' = "pop" /\ UNCHANGED result)
     /\ UNCHANGED <<sent, posted, usedq, head, tail, toks, free>>
  \* pop the completion expected at `tail`, if the used ring is not empty
  \/ /\ pc = "pop"
     /\ IF usedq = <<>> THEN pc' = "loop" /\ UNCHANGED <<usedq, tail, result, posted, free>>
        ELSE IF Head(usedq) # toks[tail] THEN pc' = "done" /\ result' = "WrongToken" /\ UNCHANGED <<usedq, tail, posted, free>>
        ELSE /\ usedq' = Tail(usedq) /\ tail' = (tail + 1) % Cap /\ free' = free + 1
             /\ posted' = SelectSeq(posted, LAMBDA c : c.tok # Head(usedq))
             /\ pc' = "loop" /\ UNCHANGED result
     /\ UNCHANGED <<sent, head, toks>>
Device ==
  /\ pc # "done"
  /\ \E i \in 1..Len(posted) :
        /\ \A j \in 1..Len(usedq) : usedq[j] # posted[i].tok
        /\ InOrder => \A k \in 1..(i - 1) : \E j \in 1..Len(usedq) : usedq[j] = posted[k].tok
        /\ usedq' = Append(usedq, posted[i].tok)
  /\ UNCHANGED <<sent, posted, head, tail, toks, pc, result, free>>
Next == Driver \/ Device
Spec == Init /\ [][Next]_vars /\ WF_vars(Driver) /\ WF_vars(Device)
\* chunks are consecutive pieces of the frames, no larger than a period, never more than Cap outstanding
ChunksOK == /\ Len(posted) <= Cap
            /\ \A i \in 1..Len(posted) : posted[i].len <= Period /\ posted[i].len >= 1
            /\ \A i \in 1..(Len(posted) - 1) : posted[i + 1].off = posted[i].off + posted[i].len
\* in the absence of device errors the helper ends with success, everything delivered and consumed
Outcome == pc = "done" => (result = "Ok" /\ sent = Frames /\ posted = <<>>)
Terminates == <>(pc = "done")
=============================================================================
