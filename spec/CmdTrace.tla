------------------------------ MODULE CmdTrace ------------------------------
EXTENDS Cmd, Json, IOUtils
Rec == ndJsonDeserialize(IOEnv.TRACE)
VARIABLE l
ED == INSTANCE Edid
tvars == <<cvars, l>>
Ev == Rec[l]
Is(name) == l <= Len(Rec) /\ Rec[l].e = name /\ l' = l + 1
IsT(opn) == l <= Len(Rec) /\ Rec[l].e = "T" /\ Rec[l].op = opn /\ l' = l + 1
Cfg0 == [kind |-> "none", ind |-> FALSE]
TraceInit == l = 1 /\ CInit(Cfg0)
TReset == Is("CmdReset") /\ CReset(Ev)
TCall  == Is("Call") /\ Call(Ev)
TCmd   == Is("DevCmd") /\ DevCmd(Ev)
TTx    == Is("DevTx") /\ DevTx(Ev)
TDone  == Is("DevDone") /\ DevDone(Ev.q, Ev.tok)
TRet   == Is("Ret") /\ Ret(Ev)
TAlloc == Is("DmaAlloc") /\ ~Ev.failed /\ DmaAlloc(Ev.seq, Ev.pa, Ev.pages)
TFree  == Is("DmaDealloc") /\ Ev.known /\ DmaDealloc(Ev.seq)
TStat  == IsT("set_status") /\ StatusWrite(Ev.v)
TTDrop == IsT("drop") /\ DeviceReset
TQAdd  == Is("QAdd") /\ IF ccfg.kind = "sound" /\ Ev.q = 2 THEN TxAdd ELSE UNCHANGED cvars
TQPop  == Is("QPop") /\ IF ccfg.kind = "sound" /\ Ev.q = 2 THEN TxPop ELSE UNCHANGED cvars
TDrop  == Is("Drop") /\ call = None /\ UNCHANGED cvars
\* the EDID extractors applied to the blob the last get_edid returned (Edid.tla)
ToPairs(ms) == [i \in 1..Len(ms) |-> <<ms[i][1], ms[i][2]>>]
TEdid  == Is("Edid") /\ call = None /\ ED!EdidOk(Ev.size, Ev.st, Ev.dtd, Ev.pref, ToPairs(Ev.modes)) /\ UNCHANGED cvars
TraceNext == TReset \/ TCall \/ TCmd \/ TTx \/ TDone \/ TRet \/ TAlloc \/ TFree \/ TStat \/ TTDrop \/ TQAdd \/ TQPop \/ TDrop \/ TEdid
TraceSpec == TraceInit /\ [][TraceNext]_tvars
TraceAccepted ==
  LET d == TLCGet("stats").diameter IN
  IF d - 1 = Len(Rec) THEN TRUE
  ELSE /\ PrintT(<<"TRACE_REJECTED_AT", d, Rec[d]>>)
       /\ FALSE
=============================================================================
