---------------------------- MODULE VirtQueueMC ----------------------------
(***************************************************************************)
(* Implementation-shaped refinement of VirtQueue.tla, for model checking.  *)
(*                                                                         *)
(* The driver process below is a statement-by-statement transcription of   *)
(* `VirtQueue::{add, add_direct, add_indirect, pop_used,                   *)
(* recycle_descriptors, should_notify, set_dev_notify, available_desc}` in *)
(* src/queue.rs: LIFO free list threaded through the shadow table, every   *)
(* device-visible store a separate step.  Each step is the conjunction of  *)
(* the code's own state update and the *property-level* action of          *)
(* VirtQueue.tla, so a step whose property guard is false is simply not    *)
(* enabled; the invariant DriverNeverBlocked turns that into a             *)
(* counterexample.  The device is an adversarially scheduled process that  *)
(* follows the standard (takes entries in ring order, completes any taken  *)
(* chain, element store before index store), and may run between any two   *)
(* driver steps.                                                           *)
(*                                                                         *)
(* No operation counter: with modular indices every variable is finite,    *)
(* so TLC explores the complete reachable space (unboundedly many          *)
(* submissions, every recycling order of the free list, index wrap).       *)
(***************************************************************************)
EXTENDS VirtQueue

CONSTANTS
  QN,          \* queue size
  QIndirect, QEventIdx,
  MaxBufs,     \* largest number of buffers per submission the caller tries (<= QN+1)
  WithNotify,  \* explore should_notify / set_dev_notify and the device's suppression fields
  Adversary,   \* the device writes arbitrary used elements / indices and takes entries blindly (C07)
  Bug          \* "none", or the name of a seeded design bug (negative configurations)

VARIABLES
  freeHead, shadow, numUsed, tables,   \* driver-private implementation state
  pc,                                  \* program counter + locals of the call in progress
  devPend                              \* device: id of the used element written but not yet published

implVars == <<freeHead, shadow, numUsed, tables, pc, devPend>>
allVars  == <<vars, implVars>>

Idle == [at |-> "idle"]

PAs == 1..(2 * QN + 2)
FreshPa == CHOOSE p \in PAs : p \notin DOMAIN shared
TableVa == 999

\* caller buffers of a submission with i inputs and o outputs; va identifies position
Bufs(i, o) == [k \in 1..(i + o) |->
                 [va |-> 100 + k, len |-> 1, dir |-> IF k <= i THEN "ToDevice" ELSE "FromDevice"]]
Shapes == { <<i, o>> \in (0..MaxBufs) \X (0..MaxBufs) : i + o <= MaxBufs }

MCInit ==
  /\ Init0([n |-> QN, indirect |-> QIndirect, eventIdx |-> QEventIdx, ap |-> FALSE, adv |-> Adversary])
  /\ freeHead = 0
  /\ shadow = [i \in 0..QN-1 |-> [addr |-> ZeroAddr, len |-> 0, flags |-> 0,
                                   next |-> IF i + 1 < QN THEN i + 1 ELSE 0]]
  /\ numUsed = 0
  /\ tables = <<>>
  /\ pc = Idle
  /\ devPend = -1

DescFlagsFor(dir, extra) == extra + (IF dir = "FromDevice" THEN 2 ELSE 0)
ClearNext(f) == IF FNext(f) THEN f - 1 ELSE f

-----------------------------------------------------------------------------
(* add *)
ImplRefusal(needed) ==
  IF needed = 0 THEN "InvalidParam"
  ELSE IF numUsed + 1 > QN \/ needed > QN \/ (~QIndirect /\ numUsed + needed > QN)
       THEN "QueueFull" ELSE "none"

CallAdd(i, o) ==
  /\ pc = Idle
  /\ AddCall(Bufs(i, o), "d")
  /\ LET needed == i + o
         r == ImplRefusal(needed) IN
     pc' = IF r # "none" THEN [at |-> "add_ret_err", err |-> r]
           ELSE [at |-> IF QIndirect /\ needed > 1 THEN "ai_share" ELSE "ad_share",
                 bufs |-> Bufs(i, o), k |-> 1, head |-> freeHead, last |-> freeHead, list |-> <<>>]
  /\ UNCHANGED <<freeHead, shadow, numUsed, tables, devPend>>

AddRetErrStep ==
  /\ pc.at = "add_ret_err"
  /\ AddRetErr(pc.err)
  /\ pc' = Idle
  /\ UNCHANGED <<freeHead, shadow, numUsed, tables, devPend>>

\* add_direct: desc.set_buf (shares), last = free_head, free_head = desc.next
AdShare ==
  /\ pc.at = "ad_share"
  /\ LET b == pc.bufs[pc.k]
         pa == FreshPa IN
     /\ ShareBuf(pa, b.va, b.len, b.dir, cfg.ap)
     /\ shadow' = [shadow EXCEPT ![freeHead] =
                     [addr |-> pa, len |-> b.len, flags |-> DescFlagsFor(b.dir, 1), next |-> @.next]]
     /\ freeHead' = shadow[freeHead].next
     /\ pc' = [pc EXCEPT !.at = "ad_store", !.last = freeHead]
  /\ UNCHANGED <<numUsed, tables, devPend>>

AdStore ==      \* write_desc(last)
  /\ pc.at = "ad_store"
  /\ StoreDesc(pc.last, shadow[pc.last])
  /\ pc' = IF pc.k = Len(pc.bufs) THEN [pc EXCEPT !.at = "ad_fix"]
           ELSE [pc EXCEPT !.at = "ad_share", !.k = @ + 1]
  /\ UNCHANGED <<freeHead, shadow, numUsed, tables, devPend>>

AdFix ==        \* remove NEXT from the last descriptor and write it again
  /\ pc.at = "ad_fix"
  /\ shadow' = [shadow EXCEPT ![pc.last].flags = ClearNext(@)]
  /\ IF Bug = "no_last_fix" THEN UNCHANGED <<cfg, drvVars, dmemVars, vmemVars, shared, devVars>>
     ELSE StoreDesc(pc.last, shadow'[pc.last])
  /\ numUsed' = numUsed + Len(pc.bufs)
  /\ pc' = [pc EXCEPT !.at = IF Bug = "idx_before_slot" THEN "fence" ELSE "slot"]
  /\ UNCHANGED <<freeHead, tables, devPend>>

\* add_indirect: fill the list, share each buffer
AiShare ==
  /\ pc.at = "ai_share"
  /\ LET b == pc.bufs[pc.k]
         pa == FreshPa
         lastOne == pc.k = Len(pc.bufs) IN
     /\ ShareBuf(pa, b.va, b.len, b.dir, cfg.ap)
     /\ pc' = [pc EXCEPT !.list = Append(@, [addr |-> pa, len |-> b.len,
                                              flags |-> DescFlagsFor(b.dir, IF lastOne THEN 0 ELSE 1),
                                              next |-> pc.k]),
                         !.k = @ + 1,
                         !.at = IF lastOne THEN "ai_table" ELSE "ai_share"]
  /\ UNCHANGED <<freeHead, shadow, numUsed, tables, devPend>>

AiTable ==      \* share the list, point the head descriptor at it
  /\ pc.at = "ai_table"
  /\ LET pa == FreshPa
         len == 16 * Len(pc.list) IN
     /\ ShareTable(pa, TableVa, len, "ToDevice", cfg.ap, pc.list)
     /\ tables' = (pc.head :> pc.list) @@ tables
     /\ shadow' = [shadow EXCEPT ![pc.head] = [addr |-> pa, len |-> len, flags |-> 4, next |-> @.next]]
     /\ freeHead' = shadow[pc.head].next
     /\ pc' = [pc EXCEPT !.at = "ai_store"]
  /\ UNCHANGED <<numUsed, devPend>>

AiStore ==
  /\ pc.at = "ai_store"
  /\ StoreDesc(pc.head, shadow[pc.head])
  /\ numUsed' = numUsed + 1
  /\ pc' = [pc EXCEPT !.at = "slot"]
  /\ UNCHANGED <<freeHead, shadow, tables, devPend>>

SlotStep ==
  /\ pc.at = "slot"
  /\ StoreRingSlot(availIdx % QN, pc.head)
  /\ pc' = [pc EXCEPT !.at = IF Bug = "idx_before_slot" THEN "add_ret" ELSE "fence"]
  /\ UNCHANGED <<freeHead, shadow, numUsed, tables, devPend>>

FenceStep ==
  /\ pc.at = "fence"
  /\ Fence
  /\ pc' = [pc EXCEPT !.at = "idx"]
  /\ UNCHANGED <<freeHead, shadow, numUsed, tables, devPend>>

\* seeded bug: publish the index without the property-level guard, ring slot afterwards
BugPublish(v) ==
  /\ idxMem' = v /\ availIdx' = v
  /\ op' = [op EXCEPT !.pub = TRUE, !.head = pc.head, !.descs = Parse(pc.head).descs]
  /\ UNCHANGED <<cfg, lastUsed, lastChecked, held, desc, ring, availFlags, usedEvent,
                 vmemVars, shared, devVars>>
BugSlot ==
  /\ ring' = ((Sub(availIdx, 1) % QN) :> pc.head) @@ ring
  /\ UNCHANGED <<cfg, drvVars, desc, idxMem, availFlags, usedEvent, vmemVars, shared, devVars>>

IdxStep ==
  /\ pc.at = "idx"
  /\ IF Bug = "idx_before_slot" THEN BugPublish(Inc(availIdx)) ELSE PublishIdx(Inc(availIdx))
  /\ pc' = [pc EXCEPT !.at = IF Bug = "idx_before_slot" THEN "bugslot" ELSE "add_ret"]
  /\ UNCHANGED <<freeHead, shadow, numUsed, tables, devPend>>

BugSlotStep ==
  /\ pc.at = "bugslot"
  /\ BugSlot
  /\ pc' = [pc EXCEPT !.at = "bug_ret"]
  /\ UNCHANGED <<freeHead, shadow, numUsed, tables, devPend>>
BugRetStep ==   \* return without the property-level bookkeeping being checkable
  /\ pc.at = "bug_ret"
  /\ LET p == Parse(pc.head) IN
     held' = (pc.head :> [descs |-> p.descs, elems |-> SubmissionElems, bufs |-> op.bufs,
                          outdg |-> "d", pas |-> { op.shares[pos].pa : pos \in DOMAIN op.shares }]) @@ held
  /\ op' = NoOp
  /\ pc' = Idle
  /\ UNCHANGED <<cfg, availIdx, lastUsed, lastChecked, dmemVars, vmemVars, shared, devVars,
                 freeHead, shadow, numUsed, tables, devPend>>

AddRetStep ==
  /\ pc.at = "add_ret"
  /\ AddRetOk(pc.head)
  /\ pc' = Idle
  /\ UNCHANGED <<freeHead, shadow, numUsed, tables, devPend>>

-----------------------------------------------------------------------------
(* pop_used / recycle_descriptors *)
ImplPopOutcome(token) ==
  IF lastUsed = usedIdx THEN "NotReady"
  ELSE IF Bug # "no_token_check" /\ UsedAt(lastUsed % QN).id # token THEN "WrongToken" ELSE "Ok"

CallPop(token) ==
  /\ pc = Idle
  /\ token \in DOMAIN held \/ PopOutcome(token) # "Ok"
  /\ Bug = "no_token_check" => token \in DOMAIN held
  /\ LET o == ImplPopOutcome(token) IN
     /\ pc' = IF o # "Ok" THEN [at |-> "pop_ret_err", err |-> o]
              ELSE [at |-> IF FIndirect(shadow[token].flags) THEN "pi_table" ELSE "pd_store",
                    token |-> token, bufs |-> held[token].bufs, k |-> 1,
                    origFree |-> freeHead, next |-> token, paddr |-> ZeroAddr,
                    len |-> UsedAt(lastUsed % QN).len]
     /\ freeHead' = IF o = "Ok" THEN token ELSE freeHead
  /\ PopCall(token, "d")
  /\ UNCHANGED <<shadow, numUsed, tables, devPend>>

PopRetErrStep ==
  /\ pc.at = "pop_ret_err"
  /\ PopRetErr(pc.err)
  /\ pc' = Idle
  /\ UNCHANGED <<freeHead, shadow, numUsed, tables, devPend>>

\* direct chain, per buffer: unset_buf, fix next of the tail, write_desc, then unshare
PdStore ==
  /\ pc.at = "pd_store"
  /\ LET di == pc.next
         d == shadow[di]
         isLast == ~FNext(d.flags) IN
     /\ shadow' = [shadow EXCEPT ![di] = [addr |-> ZeroAddr, len |-> 0, flags |-> d.flags,
                                           next |-> IF isLast THEN pc.origFree ELSE d.next]]
     /\ numUsed' = numUsed - 1
     /\ StoreDesc(di, shadow'[di])
     /\ pc' = [pc EXCEPT !.at = "pd_unshare", !.paddr = d.addr,
                         !.next = IF isLast THEN QN ELSE d.next]   \* QN encodes None
  /\ UNCHANGED <<freeHead, tables, devPend>>

PdUnshare ==
  /\ pc.at = "pd_unshare"
  /\ LET b == pc.bufs[pc.k] IN Unshare(pc.paddr, b.va, b.len, b.dir, cfg.ap)
  /\ pc' = IF pc.k = Len(pc.bufs) THEN [pc EXCEPT !.at = "p_event"]
           ELSE [pc EXCEPT !.at = "pd_store", !.k = @ + 1]
  /\ UNCHANGED <<freeHead, shadow, numUsed, tables, devPend>>

\* indirect chain: unshare the table with the head's address, then each buffer with the
\* address recorded in the driver's private copy of the table
PiTable ==
  /\ pc.at = "pi_table"
  /\ LET d == shadow[pc.token] IN
     /\ shadow' = [shadow EXCEPT ![pc.token] = [addr |-> ZeroAddr, len |-> 0, flags |-> d.flags,
                                                 next |-> pc.origFree]]
     /\ numUsed' = numUsed - 1
     /\ Unshare(d.addr, TableVa, 16 * Len(tables[pc.token]), "ToDevice", cfg.ap)
     /\ pc' = [pc EXCEPT !.at = "pi_unshare"]
  /\ UNCHANGED <<freeHead, tables, devPend>>

PiUnshare ==
  /\ pc.at = "pi_unshare"
  /\ LET b == pc.bufs[pc.k] IN Unshare(tables[pc.token][pc.k].addr, b.va, b.len, b.dir, cfg.ap)
  /\ IF pc.k = Len(pc.bufs)
     THEN /\ pc' = [pc EXCEPT !.at = "p_event"]
          /\ tables' = [h \in DOMAIN tables \ {pc.token} |-> tables[h]]
     ELSE /\ pc' = [pc EXCEPT !.k = @ + 1]
          /\ UNCHANGED tables
  /\ UNCHANGED <<freeHead, shadow, numUsed, devPend>>

PEvent ==      \* last_used_idx += 1; used_event store if negotiated
  /\ pc.at = "p_event"
  /\ IF QEventIdx /\ Bug # "no_rearm" THEN StoreUsedEvent(Inc(lastUsed))
                  ELSE UNCHANGED <<cfg, drvVars, dmemVars, vmemVars, shared, devVars>>
  /\ pc' = [pc EXCEPT !.at = "pop_ret"]
  /\ UNCHANGED <<freeHead, shadow, numUsed, tables, devPend>>

PopRetStep ==
  /\ pc.at = "pop_ret"
  /\ PopRetOk(pc.len, "d")
  /\ pc' = Idle
  /\ UNCHANGED <<freeHead, shadow, numUsed, tables, devPend>>

-----------------------------------------------------------------------------
(* should_notify / set_dev_notify *)
\* wrap-aware comparison as coded after the fix of D1: (avail_idx - (avail_event+1)) as i16 >= 0
ImplShouldNotify ==
  IF QEventIdx
  THEN IF Bug = "naive_event_compare" THEN availIdx >= Inc(availEvent)
       ELSE Sub(availIdx, Inc(availEvent)) < IdxMod \div 2
  ELSE usedFlags % 2 = 0

CallShouldNotify ==
  /\ pc = Idle
  /\ ShouldNotify(ImplShouldNotify)
  /\ UNCHANGED implVars

CallSetDevNotify(enable) ==
  /\ pc = Idle
  /\ SetDevNotifyCall(enable)
  /\ pc' = [at |-> IF QEventIdx THEN "sdn_ret" ELSE "sdn_store", enable |-> enable]
  /\ UNCHANGED <<freeHead, shadow, numUsed, tables, devPend>>
SdnStore ==
  /\ pc.at = "sdn_store"
  /\ StoreAvailFlags(IF pc.enable THEN 0 ELSE 1)
  /\ pc' = [pc EXCEPT !.at = "sdn_ret"]
  /\ UNCHANGED <<freeHead, shadow, numUsed, tables, devPend>>
SdnRet ==
  /\ pc.at = "sdn_ret"
  /\ SetDevNotifyRet
  /\ pc' = Idle
  /\ UNCHANGED <<freeHead, shadow, numUsed, tables, devPend>>

-----------------------------------------------------------------------------
DriverStep ==
  \/ AddRetErrStep \/ AdShare \/ AdStore \/ AdFix \/ AiShare \/ AiTable \/ AiStore
  \/ SlotStep \/ FenceStep \/ IdxStep \/ AddRetStep \/ BugSlotStep \/ BugRetStep
  \/ PopRetErrStep \/ PdStore \/ PdUnshare \/ PiTable \/ PiUnshare \/ PEvent \/ PopRetStep
  \/ SdnStore \/ SdnRet

CallerStep ==
  \/ \E s \in Shapes : CallAdd(s[1], s[2])
  \/ \E t \in 0..QN-1 : CallPop(t)
  \/ WithNotify /\ CallShouldNotify
  \/ WithNotify /\ \E e \in BOOLEAN : CallSetDevNotify(e)

(* the device *)
DevStep ==
  \/ /\ \E h \in 0..QN-1 : DevTake(h)
     /\ UNCHANGED implVars
  \/ /\ devPend = -1
     /\ \E id \in devHeld :
          /\ DevUsedElem(usedIdx % QN, id, id + 1)
          /\ devPend' = id
     /\ UNCHANGED <<freeHead, shadow, numUsed, tables, pc>>
  \/ /\ devPend # -1
     /\ DevUsedIdx(Inc(usedIdx), devPend, "d")
     /\ devPend' = -1
     /\ UNCHANGED <<freeHead, shadow, numUsed, tables, pc>>
  \/ /\ WithNotify /\ QEventIdx
     /\ \E v \in 0..IdxMod-1 : v # availEvent /\ DevAvailEvent(v)
     /\ UNCHANGED implVars
  \/ /\ WithNotify /\ ~QEventIdx
     /\ DevUsedFlags(1 - usedFlags)
     /\ UNCHANGED implVars

\* C07: a device that does not follow the standard - any used element (ids of other chains, free
\* descriptors, out of range), any length, any index value, blind takes
\* (it replaces the standard-following device: what it reads is irrelevant to the driver)
AdvStep ==
  /\ Adversary
  /\ \/ \E s \in 0..QN-1, id \in 0..QN : UsedAt(s) # [id |-> id, len |-> 9] /\ DevUsedElem(s, id, 9)
     \/ \E v \in 0..IdxMod-1 : v # usedIdx /\ DevUsedIdxRaw(v)
  /\ UNCHANGED implVars

MCNext == DriverStep \/ CallerStep \/ (~Adversary /\ DevStep) \/ AdvStep
MCSpec == MCInit /\ [][MCNext]_allVars

-----------------------------------------------------------------------------
\* the driver is a sequential program: inside a call exactly its next statement must be
\* possible - if it is not, a property-level guard of VirtQueue.tla refused it
DriverNeverBlocked == pc.at # "idle" => ENABLED DriverStep

\* the implementation's private bookkeeping agrees with the property-level state
ImplAgrees ==
  pc = Idle =>
    /\ numUsed = Cardinality(BusyDescs)
    /\ (IF QIndirect THEN (IF numUsed = QN THEN 0 ELSE QN) ELSE QN - numUsed) = AvailDescVal

\* should_notify as coded never returns FALSE when the property requires a notification
ImplNotifyOk == (WithNotify /\ pc = Idle) => ShouldNotifyOk(ImplShouldNotify)

\* the free list threaded through the shadow table is exactly the free descriptors
RECURSIVE FreeList(_, _)
FreeList(h, k) == IF k = 0 THEN {} ELSE {h} \cup FreeList(shadow[h].next, k - 1)
FreeListExact ==
  pc = Idle => FreeList(freeHead, QN - numUsed) = (0..QN-1) \ BusyDescs

\* the device never takes a chain that is not completely described (C01/C02 from its side)
DevHeldDescribed == \A h \in devHeld : \/ h \in DOMAIN held
                                         \/ (op.kind = "pop" /\ op.token = h)
                                         \/ (op.kind = "add" /\ op.pub /\ op.head = h)

\* state-space reduction: memory no live chain or pending call refers to is dead
LiveDescs == BusyDescs \cup (IF pc.at = "idle" THEN {} ELSE 0..QN-1)
View == <<cfg, availIdx, lastUsed, lastChecked, held, op,
          [i \in LiveDescs |-> DescAt(i)],
          [s \in { k % QN : k \in Window(devNext, idxMem) } |-> RingAt(s)],
          idxMem, availFlags, usedEvent,
          [s \in { k % QN : k \in Window(lastUsed, usedIdx) } \cup (IF devPend = -1 THEN {} ELSE {usedIdx % QN}) |-> UsedAt(s)],
          usedIdx, usedFlags, availEvent, shared, devNext, devHeld, wrote,
          freeHead, shadow, numUsed, tables, pc, devPend>>
=============================================================================
