SPECIFICATION MCSpec
CONSTANTS
 QN = 4
 Cap = 1
 Bug = "none"
INVARIANTS Stocked NeverBlocked
CHECK_DEADLOCK FALSE
