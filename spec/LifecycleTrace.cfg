SPECIFICATION TraceSpec
INVARIANTS NoLiveWithoutInit AcceptedOK
POSTCONDITION TraceAccepted
CHECK_DEADLOCK FALSE
