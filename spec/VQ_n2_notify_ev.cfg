SPECIFICATION MCSpec
CONSTANTS
  IdxMod = 8
  ZeroAddr = 0
  QN = 2
  QIndirect = FALSE
  QEventIdx = TRUE
  MaxBufs = 1
  Adversary = FALSE
  WithNotify = TRUE
  Bug = "none"
INVARIANTS
  TypeOK
  C01_Disjoint
  C01_HeldDescribed
  C02_PublishedComplete
  C02_IdxAgrees
  C03_Outstanding
  C04_Ledger
  C04_NoBoth
  C05_Rearmed
  DriverNeverBlocked
  ImplAgrees
  ImplNotifyOk
  FreeListExact
  DevHeldDescribed
PROPERTIES
  C02_IdxMonotone
CHECK_DEADLOCK FALSE
