------------------------------- MODULE BlkMC -------------------------------
(* All behaviours Blk.tla allows for a small instance: up to MaxOut outstanding non-blocking
   requests over 2 sectors, statuses {0,1,3}, the device answering and publishing in any order,
   the caller polling any outstanding token.  Checks the invariants and that a call in progress
   can always come to a result (the guards never paint the driver into a corner). *)
EXTENDS Blk
CONSTANTS MaxOut, Ind, Flush
Toks == 0..(MaxOut - 1)
Secs == {"0x0", "0x1"}
MCInit == BInit([cap |-> "0x40", ro |-> FALSE, flush |-> Flush, ind |-> Ind])
ReqOf(c) == [malformed |-> FALSE, type |-> TypeOf(c.op), reserved |-> 0,
             sector |-> IF c.op \in {"flush", "device_id"} THEN "0x0" ELSE c.sector,
             rl |-> IF IsWrite(c.op) THEN <<16, 512 * c.n>> ELSE <<16>>,
             wl |-> CASE IsRead(c.op) -> <<512 * c.n, 1>> [] c.op = "device_id" -> <<20, 1>> [] OTHER -> <<1>>,
             dg |-> c.dg]
FreeTok == CHOOSE t \in Toks : t \notin DOMAIN out
MCNext ==
  \/ \E o \in {"read", "write", "flush", "read_nb", "write_nb"}, s \in Secs :
        /\ (Blocking(o) => out = <<>>) /\ Cardinality(DOMAIN out) < MaxOut
        /\ Call([op |-> o, sector |-> s, n |-> 1, dg |-> IF IsWrite(o) THEN "w" \o s ELSE ""])
  \/ \E t \in DOMAIN out : Call([op |-> IF IsWrite(out[t].op) THEN "complete_write" ELSE "complete_read", tok |-> t])
  \* the device sees the request of the call in progress / of an earlier submission
  \/ cur # None /\ Submitting(cur.op) /\ ~cur.bound /\ ~(cur.op = "flush" /\ ~Flush) /\ Cardinality(DOMAIN out) < MaxOut
       /\ DevReq(FreeTok, ReqOf(cur))
  \/ \E t \in DOMAIN out : ~out[t].seen /\ DevReq(t, ReqOf(out[t]))
  \/ \E t \in DOMAIN out, st \in {0, 1, 3} : out[t].seen /\ out[t].status = -1 /\ DevResp(t, st, "r" \o out[t].sector, <<>>)
  \/ \E t \in DOMAIN out : out[t].status # -1 /\ (\A i \in 1..Len(usedq) : usedq[i] # t) /\ DevDone(t)
  \* results: whatever the guards allow
  \/ \E ok \in BOOLEAN, e \in {"IoError", "Unsupported", "NotReady", "WrongToken", "QueueFull"}, t \in Toks, d \in {"", "r0x0", "r0x1"} :
        Ret([ok |-> ok, err |-> e, tok |-> t, dg |-> d])
  \/ \E v \in Toks \cup {-1} : Peek(v)
MCSpec == MCInit /\ [][MCNext]_bvars
\* a blocking call whose request was answered and published can return; polls always can
CanReturn == (cur # None /\ (~Blocking(cur.op) \/ (cur.bound /\ usedq # <<>> /\ Head(usedq) = cur.tok))
              /\ ~(cur.op \in {"read_nb", "write_nb"} /\ ~cur.bound /\ Cardinality(DOMAIN out) >= MaxOut))
             => ENABLED (\E ok \in BOOLEAN, e \in {"IoError", "Unsupported", "NotReady", "WrongToken", "QueueFull"}, t \in Toks, d \in {"", "r0x0", "r0x1"} :
                            Ret([ok |-> ok, err |-> e, tok |-> t, dg |-> d]))
=============================================================================
