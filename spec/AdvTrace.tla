----------------------------- MODULE AdvTrace -----------------------------
(* Trace validation of the driver-level stream of the adversarial family (C07) *)
EXTENDS Adv, Json, IOUtils, Sequences

Rec == ndJsonDeserialize(IOEnv.TRACE)
VARIABLE l
tvars == <<avars, l>>
Ev == Rec[l]
Is(name) == l <= Len(Rec) /\ Rec[l].e = name /\ l' = l + 1

TraceInit == l = 1 /\ AInit

TraceNext ==
  \/ Is("AdvReset") /\ AReset
  \/ Is("DmaAlloc") /\ DmaAlloc(Ev.seq, Ev.pages, Ev.failed)
  \/ Is("DmaDealloc") /\ DmaDealloc(Ev.seq, Ev.known, Ev.va_ok, Ev.pages_ok, Ev.ap_ok)
  \/ Is("Call") /\ Call(Ev.op)
  \/ Is("Ret") /\ Ret
  \/ Is("Panic") /\ Panic(Ev.clean)
  \/ Is("Stuck") /\ Stuck
  \/ Is("Drop") /\ Drop
  \/ Is("Slice") /\ Slice(Ev.lenp, Ev.capp)
  \/ Is("FreeShared") /\ FreeWhileShared
  \/ Is("Status") /\ Status(Ev.driver_ok, Ev.reset)
  \/ Is("RxPost") /\ RxPost
  \/ Is("RxTake") /\ RxTake

TraceSpec == TraceInit /\ [][TraceNext]_tvars

TraceAccepted ==
  LET d == TLCGet("stats").diameter IN
  IF d - 1 = Len(Rec) THEN TRUE
  ELSE /\ PrintT(<<"TRACE_REJECTED_AT", d, Rec[d]>>)
       /\ FALSE
=============================================================================
