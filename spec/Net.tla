--------------------------------- MODULE Net ---------------------------------
(***************************************************************************)
(* C16: network frames and receive buffers (raw and buffer-managing        *)
(* driver).                                                                *)
(***************************************************************************)
EXTENDS Integers, Sequences, FiniteSets, TLC

VARIABLES ncfg,    \* [hdr, n, mode, ind]: header size by negotiated features, queue size, "raw"|"buf"
          posted,  \* receive buffers (tokens) at the device
          filled,  \* token |-> [flen, dg] frames the device wrote
          usedq,   \* receive tokens in completion order
          last,    \* the completion most recently consumed from the receive queue
          held,    \* buffered driver: buffer indices owned by the caller
          txout,   \* transmit chains outstanding
          txs,     \* transmissions submitted and not yet seen by the device, oldest first
          call
nvars == <<ncfg, posted, filled, usedq, last, held, txout, txs, call>>
None == [op |-> "none"]
NoLast == [tok |-> -1, flen |-> 0, dg |-> ""]

NInit(c) == ncfg = c /\ posted = {} /\ filled = <<>> /\ usedq = <<>> /\ last = NoLast /\ held = {} /\ txout = 0 /\ txs = <<>> /\ call = None
NReset(c) == ncfg' = c /\ posted' = {} /\ filled' = <<>> /\ usedq' = <<>> /\ last' = NoLast /\ held' = {} /\ txout' = 0 /\ txs' = <<>> /\ call' = None

\* ---- receive queue
RxAdd(tok) ==
  /\ tok \notin posted
  /\ posted' = posted \cup {tok}
  /\ UNCHANGED <<ncfg, filled, usedq, last, held, txout, txs, call>>
\* the device writes header + frame into any posted buffer
DevRx(tok, flen, dg) ==
  /\ tok \in posted /\ tok \notin DOMAIN filled
  /\ filled' = (tok :> [flen |-> flen, dg |-> dg]) @@ filled
  /\ usedq' = Append(usedq, tok)
  /\ UNCHANGED <<ncfg, posted, last, held, txout, txs, call>>
\* the driver consumes the oldest completion: used length = header + frame
RxPop(tok, len) ==
  /\ usedq # <<>> /\ Head(usedq) = tok
  /\ len = ncfg.hdr + filled[tok].flen
  /\ last' = [tok |-> tok, flen |-> filled[tok].flen, dg |-> filled[tok].dg]
  /\ usedq' = Tail(usedq) /\ posted' = posted \ {tok}
  /\ filled' = [t \in DOMAIN filled \ {tok} |-> filled[t]]
  /\ UNCHANGED <<ncfg, held, txout, txs, call>>

\* ---- transmit queue
TxAdd == txout' = txout + 1 /\ UNCHANGED <<ncfg, posted, filled, usedq, last, held, txs, call>>
TxPop == txout > 0 /\ txout' = txout - 1 /\ UNCHANGED <<ncfg, posted, filled, usedq, last, held, txs, call>>
\* what the device finds on the transmit queue: zeroed header of the negotiated size, then
\* exactly the caller's bytes; nothing device-writable
DevTx(len, hdrZero, dg, rl, wl) ==
  /\ txs # <<>>
  /\ LET t == Head(txs) IN
       /\ len = ncfg.hdr + t.flen /\ hdrZero /\ dg = t.dg /\ wl = <<>>
       /\ (t.op = "send" => rl = (IF t.flen = 0 THEN <<ncfg.hdr>> ELSE <<ncfg.hdr, t.flen>>))
  /\ txs' = Tail(txs)
  /\ UNCHANGED <<ncfg, posted, filled, usedq, last, held, txout, call>>

\* ---- public calls
Call(c) ==
  /\ call = None /\ call' = c
  /\ txs' = IF c.op \in {"send", "transmit_begin"} THEN Append(txs, [op |-> c.op, flen |-> c.flen, dg |-> c.dg]) ELSE txs
  /\ UNCHANGED <<ncfg, posted, filled, usedq, last, held, txout>>

TxFree == ncfg.n - txout
CanSend == IF ncfg.ind THEN TxFree >= 1 ELSE TxFree >= 2

Ret(r) ==
  /\ call # None
  /\ CASE call.op = "can_recv" -> r.b = (usedq # <<>>) /\ UNCHANGED held
       [] call.op = "can_send" -> r.b = CanSend /\ UNCHANGED held
       [] call.op = "new" -> UNCHANGED held
       [] call.op = "send" -> r.ok /\ UNCHANGED held
       [] call.op = "transmit_begin" ->
            \* refused only when the transmit queue is full; then nothing was submitted
            /\ (~r.ok => (r.err = "QueueFull" /\ txout = ncfg.n))
            /\ UNCHANGED held
       [] call.op = "transmit_complete" -> UNCHANGED held
       [] call.op = "receive" ->            \* buffered driver
            /\ IF r.ok
               THEN /\ r.packet_len = last.flen /\ r.dg = last.dg   \* exactly the frame
                    /\ r.idx \notin held /\ held' = held \cup {r.idx}
               ELSE r.err = "NotReady" /\ usedq = <<>> /\ UNCHANGED held
       [] call.op = "recycle" ->
            /\ r.ok /\ call.idx \in held /\ held' = held \ {call.idx}
       [] call.op = "receive_complete" ->   \* raw driver
            /\ r.ok => (r.hdr_len = ncfg.hdr /\ r.pkt_len = last.flen /\ r.dg = last.dg)
            /\ UNCHANGED held
       [] call.op = "receive_begin" ->
            /\ (~r.ok => (r.err = "QueueFull" /\ Cardinality(posted) = ncfg.n))
            /\ UNCHANGED held
       [] call.op = "poll_receive" -> r.v = (IF usedq = <<>> THEN -1 ELSE Head(usedq)) /\ UNCHANGED held
       [] OTHER -> FALSE
  /\ call' = None
  /\ ncfg' = IF call.op = "new" THEN [ncfg EXCEPT !.ready = TRUE] ELSE ncfg
  /\ txs' = IF call.op = "transmit_begin" /\ ~r.ok THEN SubSeq(txs, 1, Len(txs) - 1) ELSE txs
  /\ UNCHANGED <<posted, filled, usedq, last, txout>>

\* every receive buffer is either posted to the device or owned by the caller
Conservation == (ncfg.mode = "buf" /\ ncfg.ready /\ call = None) => (posted \cap held = {} /\ Cardinality(posted) + Cardinality(held) = ncfg.n)
=============================================================================
