---------------------------- MODULE LifecycleMC ----------------------------
(***************************************************************************)
(* A generic driver process shaped like the crate's drivers: begin_init,   *)
(* one VirtQueue::new per queue (one or two DMA allocations each, any of   *)
(* which may fail), finish_init, notify, and teardown in the order the     *)
(* drivers implement (Drop: queue_unset for every queue, then the fields:  *)
(* transport first - its own Drop resets the device - then the queues).    *)
(* TLC checks that every step of this design is allowed by the guards of   *)
(* Lifecycle.tla for every offered feature set over a 6-bit projection,    *)
(* every failing allocation and both layouts; negative configurations      *)
(* (Bug) must be refused.                                                  *)
(***************************************************************************)
EXTENDS Lifecycle

CONSTANTS NQ, Legacy, Bug

\* projection of the 64-bit feature space: the four common bits, one supported device bit of
\* the block driver (9, FLUSH) and one unsupported bit (34, RING_PACKED)
Proj == {28, 29, 32, 33, 9, 34}
PerQ == IF Legacy THEN 1 ELSE 2

VARIABLES pc, k, failAt, allocCount, mine
mvars == <<lvars, pc, k, failAt, allocCount, mine>>

MCInit ==
  /\ \E off \in SUBSET Proj : LInit([dev |-> 2, offered |-> off, legacy |-> Legacy])
  /\ pc = "reset" /\ k = 0 /\ allocCount = 0 /\ mine = {}
  /\ failAt \in 0..(NQ * PerQ)

Negotiate(off) == off \cap Supported(2)
\* negotiation is bit-wise: the projection argument of DESIGN.md
ASSUME \A o \in SUBSET Proj : Negotiate(o) = UNION { Negotiate({b}) : b \in o }

Step(next) == pc' = next

Driver ==
  \/ pc = "reset" /\ SetStatus(0) /\ Step("ackdrv") /\ UNCHANGED <<k, failAt, allocCount, mine>>
  \/ pc = "ackdrv" /\ SetStatus(ACK + DRV) /\ Step("read") /\ UNCHANGED <<k, failAt, allocCount, mine>>
  \/ pc = "read" /\ ReadFeatures /\ Step("write") /\ UNCHANGED <<k, failAt, allocCount, mine>>
  \/ pc = "write" /\ WriteFeatures(IF Bug = "accept_all" THEN dv.offered ELSE Negotiate(dv.offered))
                  /\ Step("featok") /\ UNCHANGED <<k, failAt, allocCount, mine>>
  \/ pc = "featok" /\ SetStatus(ACK + DRV + FEATURES_OK)
                   /\ Step(IF Bug = "early_ok" THEN "driverok" ELSE "alloc") /\ UNCHANGED <<k, failAt, allocCount, mine>>
  \* VirtQueue::new for queue k: PerQ allocations, then queue_set
  \/ /\ pc = "alloc" /\ k < NQ
     /\ IF allocCount + 1 = failAt
        THEN DmaAllocFail /\ Step("failed") /\ allocCount' = allocCount + 1 /\ UNCHANGED <<k, failAt, mine>>
        ELSE /\ DmaAlloc(allocCount + 1, 1)
             /\ allocCount' = allocCount + 1 /\ mine' = mine \cup {allocCount + 1}
             /\ Step(IF (allocCount + 1) % PerQ = 0 THEN "qset" ELSE "alloc")
             /\ UNCHANGED <<k, failAt>>
  \/ /\ pc = "qset" /\ QueueSet(k) /\ Step("holds") /\ UNCHANGED <<k, failAt, allocCount, mine>>
  \/ /\ pc = "holds"
     /\ RegionHolds({ s \in mine : s > k * PerQ /\ s <= (k + 1) * PerQ }, k)
     /\ k' = k + 1 /\ Step(IF k + 1 = NQ THEN (IF Bug = "early_ok" THEN "notify" ELSE "driverok") ELSE "alloc")
     /\ UNCHANGED <<failAt, allocCount, mine>>
  \/ pc = "driverok" /\ SetStatus(ACK + DRV + FEATURES_OK + DRIVER_OK)
                     /\ Step(IF Bug = "early_ok" THEN "alloc" ELSE "notify") /\ UNCHANGED <<k, failAt, allocCount, mine>>
  \/ pc = "notify" /\ Notify(0) /\ Step("ret") /\ UNCHANGED <<k, failAt, allocCount, mine>>
  \/ pc = "ret" /\ NewOk /\ Step("drop_unset") /\ k' = 0 /\ UNCHANGED <<failAt, allocCount, mine>>
  \* a failed allocation: the already created queues and the transport are dropped (locals in
  \* reverse declaration order: queues, then the transport), DmaError is returned
  \/ pc = "failed" /\ NewErr("DmaError") /\ Step("free") /\ UNCHANGED <<k, failAt, allocCount, mine>>
  \* Drop for the driver: queue_unset each queue ...
  \/ /\ pc = "drop_unset"
     /\ IF Bug \in {"no_unset", "live_free"} THEN UNCHANGED lvars ELSE QueueUnset(k)
     /\ k' = k + 1 /\ Step(IF k + 1 = NQ THEN "drop_transport" ELSE "drop_unset")
     /\ UNCHANGED <<failAt, allocCount, mine>>
  \* ... then the fields in declaration order: transport (reset), then queue memory
  \/ /\ pc = "drop_transport"
     /\ IF Bug \in {"queues_first", "live_free"} THEN UNCHANGED lvars ELSE TransportDrop
     /\ Step("free") /\ UNCHANGED <<k, failAt, allocCount, mine>>
  \/ /\ pc = "free" /\ mine # {}
     /\ \E s \in mine : /\ \A s2 \in mine : s <= s2
                        /\ DmaDealloc(s, TRUE, TRUE, TRUE) /\ mine' = mine \ {s}
     /\ UNCHANGED <<pc, k, failAt, allocCount>>
  \/ /\ pc = "free" /\ mine = {} /\ LifeEnd /\ Step("done") /\ UNCHANGED <<k, failAt, allocCount, mine>>

MCSpec == MCInit /\ [][Driver]_mvars
DriverNeverBlocked == pc # "done" => ENABLED Driver
\* C08: what was accepted is what was offered and supported, VERSION_1 kept when offered
Negotiated == step \in {"written", "featok", "ok"} =>
                 /\ accepted = dv.offered \cap Supported(2)
                 /\ (F_VERSION_1 \in dv.offered => F_VERSION_1 \in accepted)
=============================================================================
