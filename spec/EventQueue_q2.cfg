SPECIFICATION MCSpec
CONSTANTS
 QN = 2
 Cap = 2
 Bug = "none"
INVARIANTS Stocked NeverBlocked
CHECK_DEADLOCK FALSE
