SPECIFICATION MCSpec
CONSTANTS
  NQ = 2
  Legacy = FALSE
  Bug = "live_free"
INVARIANTS DriverNeverBlocked NoLiveWithoutInit AcceptedOK Negotiated
CHECK_DEADLOCK FALSE
