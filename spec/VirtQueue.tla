----------------------------- MODULE VirtQueue -----------------------------
(***************************************************************************)
(* Property-level specification of the split virtqueue as driven by        *)
(* virtio-drivers' `VirtQueue` (src/queue.rs).                             *)
(*                                                                         *)
(* One action per device-visible store, per platform (Hal) call, per       *)
(* public call/return and per device step.  The *guards* of the actions    *)
(* are the properties C01-C05: an implementation step that violates a      *)
(* property has no enabled action, so a recorded trace containing it is    *)
(* rejected by VirtQueueTrace.tla; the invariants below are what TLC       *)
(* checks in every state of the model-checked configurations               *)
(* (VirtQueueMC.tla) and of every validated trace.                         *)
(*                                                                         *)
(* The specification is deliberately permissive where no property speaks:  *)
(* which free descriptor is used, in which order descriptors are written,  *)
(* how often a free descriptor is rewritten, the `next` links of free      *)
(* descriptors.                                                            *)
(***************************************************************************)
EXTENDS Integers, Sequences, FiniteSets, TLC

CONSTANTS
  IdxMod,     \* modulus of the free-running ring indices: 65536 for traces, 8/16 in MC
  ZeroAddr    \* the null device address (0 in MC, "0x0" in traces)

VARIABLES
  cfg,        \* [n, indirect, eventIdx, ap]  - fixed per queue
  \* ---- driver-private, as far as the properties speak about it
  availIdx,   \* number of submissions so far (mod IdxMod)
  lastUsed,   \* number of completions consumed so far (mod IdxMod)
  lastChecked,\* availIdx at the previous should_notify (history variable of C05)
  held,       \* token |-> chain record: outstanding submissions as the caller sees them
  op,         \* the public call in progress
  \* ---- device-visible memory written by the driver (what the driver stored)
  desc,       \* index |-> [addr, len, flags, next]   (sparse; see DescAt)
  ring,       \* slot  |-> head                       (sparse; see RingAt)
  idxMem, availFlags, usedEvent,
  \* ---- device-visible memory written by the device
  usedRing,   \* slot |-> [id, len]                   (sparse; see UsedAt)
  usedIdx, usedFlags, availEvent,
  \* ---- platform ledger (Hal::share / unshare)
  shared,     \* device address |-> [va, len, dir, table, image]
  \* ---- device-private
  devNext,    \* next available-ring index the device will take
  devHeld,    \* heads taken and not yet completed
  wrote       \* id |-> digest of the device-writable bytes when the device completed the chain

drvVars  == <<availIdx, lastUsed, lastChecked, held, op>>
dmemVars == <<desc, ring, idxMem, availFlags, usedEvent>>
vmemVars == <<usedRing, usedIdx, usedFlags, availEvent>>
devVars  == <<devNext, devHeld, wrote>>
vars     == <<cfg, drvVars, dmemVars, vmemVars, shared, devVars>>

-----------------------------------------------------------------------------
(* Index arithmetic *)
Inc(a)    == (a + 1) % IdxMod
Sub(a, b) == (a + IdxMod - b) % IdxMod
\* vring_need_event of the standard: event index e lies in [old, new)
NeedEvent(e, new, old) == Sub(Sub(new, e), 1) < Sub(new, old)

N == cfg.n

(* Descriptor flag bits *)
FNext(f)     == f % 2 = 1
FWrite(f)    == (f \div 2) % 2 = 1
FIndirect(f) == (f \div 4) % 2 = 1

ZeroDesc(i) == [addr |-> ZeroAddr, len |-> 0, flags |-> 0,
                next |-> IF i + 1 < N THEN i + 1 ELSE 0]
DescAt(i) == IF i \in DOMAIN desc THEN desc[i] ELSE ZeroDesc(i)
RingAt(s) == IF s \in DOMAIN ring THEN ring[s] ELSE 0
\* (a slot the device never wrote reads as zero; lengths are encoded like addresses - only
\* compared for equality - so the zero length is ZeroAddr)
UsedAt(s) == IF s \in DOMAIN usedRing THEN usedRing[s] ELSE [id |-> 0, len |-> ZeroAddr]

Range(f) == { f[x] : x \in DOMAIN f }

-----------------------------------------------------------------------------
(* The device-side walk of a chain: Virtio 1.2 sections 2.7.5, 2.7.5.3.    *)
(* Result: [ok, elems, descs, indirect] where elems is the sequence of     *)
(* [pa, len, w] the device would access.                                   *)
BadParse == [ok |-> FALSE, elems |-> <<>>, descs |-> {}, indirect |-> FALSE]

RECURSIVE Walk(_, _, _, _)
Walk(i, seen, acc, fuel) ==
  IF i >= N \/ i \in seen \/ fuel = 0 THEN BadParse
  ELSE LET d == DescAt(i) IN
       IF d.flags >= 8 \/ FIndirect(d.flags) \/ d.len = 0 THEN BadParse
       ELSE LET acc2 == Append(acc, [pa |-> d.addr, len |-> d.len, w |-> FWrite(d.flags)]) IN
            IF FNext(d.flags) THEN Walk(d.next, seen \cup {i}, acc2, fuel - 1)
            ELSE [ok |-> TRUE, elems |-> acc2, descs |-> seen \cup {i}, indirect |-> FALSE]

\* t: the device-visible image of an indirect table, a sequence of descriptors
TableOk(t) ==
  /\ Len(t) >= 1
  /\ \A i \in 1..Len(t) : t[i].flags < 8 /\ ~FIndirect(t[i].flags) /\ t[i].len > 0
  /\ \A i \in 1..Len(t)-1 : FNext(t[i].flags) /\ t[i].next = i     \* 0-based index of entry i+1
  /\ ~FNext(t[Len(t)].flags)

Parse(h) ==
  IF h >= N THEN BadParse
  ELSE LET d == DescAt(h) IN
    IF FIndirect(d.flags)
    THEN IF /\ cfg.indirect
            /\ d.flags = 4
            /\ d.addr \in DOMAIN shared
            /\ shared[d.addr].table
            /\ d.len = 16 * Len(shared[d.addr].image)
            /\ Len(shared[d.addr].image) <= N
            /\ TableOk(shared[d.addr].image)
         THEN LET t == shared[d.addr].image IN
              [ok |-> TRUE,
               elems |-> [i \in 1..Len(t) |-> [pa |-> t[i].addr, len |-> t[i].len, w |-> FWrite(t[i].flags)]],
               descs |-> {h}, indirect |-> TRUE]
         ELSE BadParse
    ELSE Walk(h, {}, <<>>, N)

ReadableFirst(s) == \A i, j \in 1..Len(s) : (i < j /\ s[i].w) => s[j].w

\* every element lies exactly on a live share of matching direction
ElemsShared(s) == \A i \in 1..Len(s) :
   /\ s[i].pa \in DOMAIN shared
   /\ shared[s[i].pa].len = s[i].len
   /\ ~shared[s[i].pa].table
   /\ shared[s[i].pa].dir = (IF s[i].w THEN "FromDevice" ELSE "ToDevice")

BusyDescs == UNION { held[t].descs : t \in DOMAIN held }
FreeCount == N - Cardinality(BusyDescs)

\* the chain reachable from head h is exactly what the caller of token h submitted
Describes(h) ==
  /\ h \in DOMAIN held
  /\ LET p == Parse(h) IN
       /\ p.ok /\ ReadableFirst(p.elems)
       /\ p.elems = held[h].elems
       /\ p.descs = held[h].descs

\* available-ring indices in [lo, hi)
Window(lo, hi) == { (lo + k) % IdxMod : k \in 0..Sub(hi, lo) - 1 }

-----------------------------------------------------------------------------
NoOp == [kind |-> "none"]
NoTable == [pa |-> ZeroAddr]

Init0(c) ==
  /\ cfg = c
  /\ availIdx = 0 /\ lastUsed = 0 /\ lastChecked = 0
  /\ held = <<>> /\ op = NoOp
  /\ desc = <<>> /\ ring = <<>> /\ idxMem = 0 /\ availFlags = 0 /\ usedEvent = 0
  /\ usedRing = <<>> /\ usedIdx = 0 /\ usedFlags = 0 /\ availEvent = 0
  /\ shared = <<>>
  /\ devNext = 0 /\ devHeld = {} /\ wrote = <<>>

\* the same as an action (a new queue starts inside a concatenated trace)
ResetTo(c) ==
  /\ cfg' = c
  /\ availIdx' = 0 /\ lastUsed' = 0 /\ lastChecked' = 0
  /\ held' = <<>> /\ op' = NoOp
  /\ desc' = <<>> /\ ring' = <<>> /\ idxMem' = 0 /\ availFlags' = 0 /\ usedEvent' = 0
  /\ usedRing' = <<>> /\ usedIdx' = 0 /\ usedFlags' = 0 /\ availEvent' = 0
  /\ shared' = <<>>
  /\ devNext' = 0 /\ devHeld' = {} /\ wrote' = <<>>

-----------------------------------------------------------------------------
(*                              add                                        *)

\* bufs: sequence of [va, len, dir] - inputs (dir "ToDevice") then outputs ("FromDevice")
Refusal(bufs) ==
  LET needed == Len(bufs) IN
  IF needed = 0 THEN "InvalidParam"
  ELSE IF FreeCount = 0 \/ needed > N \/ (~cfg.indirect /\ needed > FreeCount)
       THEN "QueueFull" ELSE "none"

\* outdg: digest of the caller's device-writable buffers at the time of the call
AddCall(bufs, outdg) ==
  /\ op = NoOp
  /\ \A i \in 1..Len(bufs) : bufs[i].len > 0 /\ bufs[i].dir \in {"ToDevice", "FromDevice"}
  /\ \A i \in 1..Len(bufs)-1 : bufs[i].dir = "FromDevice" => bufs[i+1].dir = "FromDevice"
  /\ op' = IF Refusal(bufs) # "none"
           THEN [kind |-> "addfail", err |-> Refusal(bufs)]
           ELSE [kind |-> "add", bufs |-> bufs, shares |-> <<>>, table |-> NoTable,
                 fenced |-> FALSE, pub |-> FALSE, head |-> 0, descs |-> {}, outdg |-> outdg]
  /\ UNCHANGED <<cfg, availIdx, lastUsed, lastChecked, held, dmemVars, vmemVars, shared, devVars>>

\* C04: one share per caller buffer, true range, direction matching its role, never Both,
\* with the queue's access-platform setting; the address returned is fresh.
ShareBuf(pa, va, len, dir, ap) ==
  /\ op.kind = "add" /\ ~op.pub
  /\ ap = cfg.ap
  /\ pa # ZeroAddr /\ pa \notin DOMAIN shared
  /\ \E pos \in (1..Len(op.bufs)) \ DOMAIN op.shares :
        /\ op.bufs[pos] = [va |-> va, len |-> len, dir |-> dir]
        /\ op' = [op EXCEPT !.shares = (pos :> [pa |-> pa, len |-> len, w |-> dir = "FromDevice"]) @@ @]
  /\ shared' = (pa :> [va |-> va, len |-> len, dir |-> dir, table |-> FALSE, image |-> <<>>]) @@ shared
  /\ UNCHANGED <<cfg, availIdx, lastUsed, lastChecked, held, dmemVars, vmemVars, devVars>>

\* the indirect table: device-readable, 16 bytes per entry, shared once, only if enabled
ShareTable(pa, va, len, dir, ap, image) ==
  /\ op.kind = "add" /\ ~op.pub
  /\ cfg.indirect
  /\ ap = cfg.ap
  /\ op.table = NoTable
  /\ dir = "ToDevice"
  /\ len = 16 * Len(image) /\ Len(image) = Len(op.bufs)
  /\ pa # ZeroAddr /\ pa \notin DOMAIN shared
  /\ op' = [op EXCEPT !.table = [pa |-> pa]]
  /\ shared' = (pa :> [va |-> va, len |-> len, dir |-> dir, table |-> TRUE, image |-> image]) @@ shared
  /\ UNCHANGED <<cfg, availIdx, lastUsed, lastChecked, held, dmemVars, vmemVars, devVars>>

\* C01/C02: a descriptor of an outstanding chain is never rewritten, and nothing is
\* stored after the index of this submission was published.
StoreDesc(i, d) ==
  /\ op.kind \in {"add", "pop"}
  /\ op.kind = "add" => ~op.pub
  /\ i < N
  /\ i \notin BusyDescs
  /\ desc' = (i :> d) @@ desc
  /\ op' = IF op.kind = "add" THEN [op EXCEPT !.fenced = FALSE] ELSE op
  /\ UNCHANGED <<cfg, availIdx, lastUsed, lastChecked, held, ring, idxMem, availFlags, usedEvent,
                 vmemVars, shared, devVars>>

\* C01: exactly the slot designated by the previous available index
StoreRingSlot(s, h) ==
  /\ op.kind = "add" /\ ~op.pub
  /\ s = availIdx % N
  /\ ring' = (s :> h) @@ ring
  /\ op' = [op EXCEPT !.fenced = FALSE]
  /\ UNCHANGED <<cfg, availIdx, lastUsed, lastChecked, held, desc, idxMem, availFlags, usedEvent,
                 vmemVars, shared, devVars>>

Fence ==
  /\ op.kind = "add" /\ ~op.pub
  /\ op' = [op EXCEPT !.fenced = TRUE]
  /\ UNCHANGED <<cfg, availIdx, lastUsed, lastChecked, held, dmemVars, vmemVars, shared, devVars>>

\* what the chain at ring slot availIdx must look like for this submission
SubmissionElems == [pos \in 1..Len(op.bufs) |-> op.shares[pos]]

\* C02: the index store is guarded by completeness of the entry it publishes
PublishGuard(v) ==
  /\ op.kind = "add" /\ ~op.pub /\ op.fenced
  /\ v = Inc(availIdx)
  /\ idxMem = availIdx
  /\ DOMAIN op.shares = 1..Len(op.bufs)
  /\ LET h == RingAt(availIdx % N)
         p == Parse(h) IN
       /\ p.ok
       /\ ReadableFirst(p.elems)
       /\ p.elems = SubmissionElems
       /\ p.descs \cap BusyDescs = {}
       /\ p.indirect <=> op.table # NoTable
       /\ p.indirect => DescAt(h).addr = op.table.pa

PublishIdx(v) ==
  /\ PublishGuard(v)
  /\ LET h == RingAt(availIdx % N) IN
       op' = [op EXCEPT !.pub = TRUE, !.head = h, !.descs = Parse(h).descs]
  /\ idxMem' = v /\ availIdx' = v
  \* a new incarnation of this head: what the device wrote for an earlier one is history
  /\ LET h == RingAt(availIdx % N) IN wrote' = [t \in DOMAIN wrote \ {h} |-> wrote[t]]
  /\ UNCHANGED <<cfg, lastUsed, lastChecked, held, desc, ring, availFlags, usedEvent,
                 vmemVars, shared, devNext, devHeld>>

AddRetOk(token) ==
  /\ op.kind = "add" /\ op.pub
  /\ token = op.head
  /\ held' = (token :> [descs |-> op.descs, elems |-> SubmissionElems, bufs |-> op.bufs,
                        outdg |-> op.outdg,
                        pas |-> { op.shares[pos].pa : pos \in DOMAIN op.shares }
                                \cup (IF op.table = NoTable THEN {} ELSE {op.table.pa})]) @@ held
  /\ op' = NoOp
  /\ UNCHANGED <<cfg, availIdx, lastUsed, lastChecked, dmemVars, vmemVars, shared, devVars>>

\* C03: refused exactly when ... and without side effects (no action between call and return)
AddRetErr(e) ==
  /\ op.kind = "addfail" /\ e = op.err
  /\ op' = NoOp
  /\ UNCHANGED <<cfg, availIdx, lastUsed, lastChecked, held, dmemVars, vmemVars, shared, devVars>>

-----------------------------------------------------------------------------
(*                            pop_used                                     *)
\* C07: the scenario runs against a misbehaving device (set in the queue's configuration at Reset)
Adv == "adv" \in DOMAIN cfg /\ cfg.adv

\* the platform maps buffers in place: the caller's memory *is* the shared memory, so what the
\* device writes is visible before the completion is consumed (the C04 content clause is about
\* bouncing platforms) - everything else is unchanged
InPlace == "inplace" \in DOMAIN cfg /\ cfg.inplace

PopOutcome(token) ==
  IF lastUsed = usedIdx THEN "NotReady"
  ELSE IF UsedAt(lastUsed % N).id # token THEN "WrongToken" ELSE "Ok"

\* outdg: digest of the caller's device-writable buffers at the time of the call
PopCall(token, outdg) ==
  /\ op = NoOp
  /\ LET o == PopOutcome(token) IN
     IF o = "Ok" /\ token \notin DOMAIN held
     THEN \* a misbehaving device named a chain the driver does not have outstanding and the driver
          \* passed it on: nothing may be recycled, unshared or returned - the call is refused
          \* (WrongToken) or ends in a clean panic (C07)
          /\ Adv
          /\ op' = [kind |-> "popwild", err |-> "WrongToken"]
          /\ UNCHANGED held
     ELSE IF o = "Ok"
     THEN /\ InPlace \/ outdg = held[token].outdg      \* C04: nothing appears before the completion is consumed
          /\ op' = [kind |-> "pop", token |-> token, len |-> UsedAt(lastUsed % N).len,
                    pas |-> held[token].pas, descs |-> held[token].descs,
                    wd |-> IF token \in DOMAIN wrote THEN wrote[token] ELSE outdg]
          /\ held' = [t \in DOMAIN held \ {token} |-> held[t]]
     ELSE /\ op' = [kind |-> "popfail", err |-> o]
          /\ UNCHANGED held
  /\ UNCHANGED <<cfg, availIdx, lastUsed, lastChecked, dmemVars, vmemVars, shared, devVars>>

\* C04: unshare once, with the address share returned and the same range and direction
Unshare(pa, va, len, dir, ap) ==
  /\ op.kind = "pop"
  /\ ap = cfg.ap
  /\ pa \in DOMAIN shared /\ pa \in op.pas
  /\ shared[pa].va = va /\ shared[pa].len = len /\ shared[pa].dir = dir
  /\ shared' = [p \in DOMAIN shared \ {pa} |-> shared[p]]
  /\ UNCHANGED <<cfg, drvVars, dmemVars, vmemVars, devVars>>

StoreUsedEvent(v) ==
  /\ op.kind = "pop" /\ cfg.eventIdx
  /\ usedEvent' = v
  /\ UNCHANGED <<cfg, drvVars, desc, ring, idxMem, availFlags, vmemVars, shared, devVars>>

PopRetOk(len, outdg) ==
  /\ op.kind = "pop"
  /\ len = op.len
  /\ Adv \/ InPlace \/ outdg = op.wd                           \* C04: exactly the bytes the device wrote
  /\ op.pas \cap DOMAIN shared = {}                 \* everything of this chain unshared
  /\ cfg.eventIdx => usedEvent = Inc(lastUsed)      \* C05: re-armed for the next completion
  /\ lastUsed' = Inc(lastUsed)
  /\ op' = NoOp
  /\ UNCHANGED <<cfg, availIdx, lastChecked, held, dmemVars, vmemVars, shared, devVars>>

PopRetErr(e) ==
  /\ op.kind \in {"popfail", "popwild"} /\ e = op.err
  /\ op' = NoOp
  /\ UNCHANGED <<cfg, availIdx, lastUsed, lastChecked, held, dmemVars, vmemVars, shared, devVars>>

\* C07: the only acceptable continuation of a pop the driver could not have been entitled to
PopPanic ==
  /\ op.kind = "popwild"
  /\ op' = [kind |-> "dead"]
  /\ UNCHANGED <<cfg, availIdx, lastUsed, lastChecked, held, dmemVars, vmemVars, shared, devVars>>

-----------------------------------------------------------------------------
(*                 queries and notification suppression                    *)
CanPopVal    == lastUsed # usedIdx
PeekVal      == IF CanPopVal THEN UsedAt(lastUsed % N).id % 65536 ELSE -1
\* as documented by the crate and pinned by its test add_buffers_indirect
AvailDescVal == IF cfg.indirect THEN (IF FreeCount = 0 THEN 0 ELSE N) ELSE FreeCount

\* C05, driver -> device direction
\* (the property quantifies over batches of at most the queue size between two checks)
MustNotify == IF cfg.eventIdx THEN /\ NeedEvent(availEvent, availIdx, lastChecked)
                                   /\ Sub(availIdx, lastChecked) <= N
              ELSE usedFlags % 2 = 0
ShouldNotifyOk(r) == /\ MustNotify => r
                     /\ (~cfg.eventIdx /\ usedFlags % 2 = 1) => ~r

QueryCanPop(r)    == op = NoOp /\ r = CanPopVal /\ UNCHANGED vars
QueryPeek(r)      == op = NoOp /\ r = PeekVal /\ UNCHANGED vars
QueryAvailDesc(r) == op = NoOp /\ r = AvailDescVal /\ UNCHANGED vars
\* should_notify may also be evaluated inside a driver-level call, never inside add/pop
ShouldNotify(r) ==
  /\ op = NoOp
  /\ ShouldNotifyOk(r)
  /\ lastChecked' = availIdx
  /\ UNCHANGED <<cfg, availIdx, lastUsed, held, op, dmemVars, vmemVars, shared, devVars>>

\* should_notify was called and its result is not logged (driver-owned queues): the verdict is
\* what the driver must do next - see VirtQueueTrace!pn
ShouldNotifyCalled ==
  /\ op = NoOp
  /\ lastChecked' = availIdx
  /\ UNCHANGED <<cfg, availIdx, lastUsed, held, op, dmemVars, vmemVars, shared, devVars>>
NotifyVerdict == IF MustNotify THEN "must" ELSE IF ~cfg.eventIdx THEN "mustnot" ELSE "free"

\* C05, device -> driver direction without event index
SetDevNotifyCall(enable) ==
  /\ op = NoOp
  /\ op' = [kind |-> "sdn", enable |-> enable]
  /\ UNCHANGED <<cfg, availIdx, lastUsed, lastChecked, held, dmemVars, vmemVars, shared, devVars>>
StoreAvailFlags(v) ==
  /\ op.kind = "sdn"
  /\ availFlags' = v
  /\ UNCHANGED <<cfg, drvVars, desc, ring, idxMem, usedEvent, vmemVars, shared, devVars>>
SetDevNotifyRet ==
  /\ op.kind = "sdn"
  /\ ~cfg.eventIdx => availFlags = (IF op.enable THEN 0 ELSE 1)
  /\ op' = NoOp
  /\ UNCHANGED <<cfg, availIdx, lastUsed, lastChecked, held, dmemVars, vmemVars, shared, devVars>>

-----------------------------------------------------------------------------
(*                 the device (environment)                                *)
\* the device may look at queue memory in *every* state; taking an entry is its
\* only step that depends on what it sees
\* a misbehaving device may also "take" entries whose chains it already reported as used
DevTakeAny(h) ==
  /\ Adv
  /\ devNext # idxMem
  /\ h = RingAt(devNext % N)
  /\ devHeld' = devHeld \cup {h}
  /\ devNext' = Inc(devNext)
  /\ UNCHANGED <<cfg, drvVars, dmemVars, vmemVars, shared, wrote>>

DevTake(h) ==
  /\ devNext # idxMem
  /\ h = RingAt(devNext % N)
  /\ devHeld' = devHeld \cup {h}
  /\ devNext' = Inc(devNext)
  /\ UNCHANGED <<cfg, drvVars, dmemVars, vmemVars, shared, wrote>>

DevUsedElem(s, id, len) ==
  /\ usedRing' = (s :> [id |-> id, len |-> len]) @@ usedRing
  /\ UNCHANGED <<cfg, drvVars, dmemVars, usedIdx, usedFlags, availEvent, shared, devVars>>
DevUsedIdx(v, id, wd) ==
  /\ usedIdx' = v
  /\ devHeld' = devHeld \ {id}
  /\ wrote' = (id :> wd) @@ wrote
  /\ UNCHANGED <<cfg, drvVars, dmemVars, usedRing, usedFlags, availEvent, shared, devNext>>
\* index moved by a misbehaving device (C07): no chain is known to be completed by it
DevUsedIdxRaw(v) ==
  /\ usedIdx' = v
  /\ UNCHANGED <<cfg, drvVars, dmemVars, usedRing, usedFlags, availEvent, shared, devVars>>
DevAvailEvent(v) ==
  /\ availEvent' = v
  /\ UNCHANGED <<cfg, drvVars, dmemVars, usedRing, usedIdx, usedFlags, shared, devVars>>
DevUsedFlags(v) ==
  /\ usedFlags' = v
  /\ UNCHANGED <<cfg, drvVars, dmemVars, usedRing, usedIdx, availEvent, shared, devVars>>

\* a standard-following device: completes only what it took, in the next used slot
WellBehavedElem(s, id) == s = usedIdx % N /\ id \in devHeld
WellBehavedIdx(v, id)  == v = Inc(usedIdx) /\ UsedAt(usedIdx % N).id = id /\ id \in devHeld

-----------------------------------------------------------------------------
(*                            invariants                                   *)

\* C02: at every instant, every entry below the index the device can read is complete.
\* While a call is in progress the chain being published is described by `op`.
DescribesPending(h) ==
  /\ op.kind = "add" /\ op.pub /\ h = op.head
  /\ LET p == Parse(h) IN p.ok /\ p.elems = SubmissionElems /\ p.descs = op.descs

\* entries the device has not taken yet
C02_PublishedComplete ==
  ~Adv =>
  \A k \in Window(devNext, idxMem) :
     LET h == RingAt(k % N) IN Describes(h) \/ DescribesPending(h)

\* C02: the index in memory is the driver's count and only ever advances by one (action property)
C02_IdxMonotone == [][idxMem' = idxMem \/ idxMem' = Inc(idxMem)]_vars
C02_IdxAgrees   == idxMem = availIdx

\* C01: no descriptor belongs to two outstanding chains
C01_Disjoint ==
  \A a, b \in DOMAIN held : a # b => held[a].descs \cap held[b].descs = {}

\* C01/C04: every outstanding chain still describes its submission and its buffers are shared
C01_HeldDescribed ==
  \A h \in DOMAIN held : Describes(h) /\ ElemsShared(held[h].elems)

\* C03: outstanding count never exceeds the ring, so unconsumed completions are never overwritten
C03_Outstanding == Sub(availIdx, lastUsed) <= N /\ Cardinality(BusyDescs) <= N

\* C04: the ledger is exactly the buffers and tables of outstanding chains plus the call in progress
OpPas == IF op.kind = "add" THEN { op.shares[pos].pa : pos \in DOMAIN op.shares }
                                 \cup (IF op.table = NoTable THEN {} ELSE {op.table.pa})
         ELSE IF op.kind = "pop" THEN op.pas \cap DOMAIN shared ELSE {}
C04_Ledger == DOMAIN shared = UNION { held[t].pas : t \in DOMAIN held } \cup OpPas

\* C04: nothing is shared in both directions
C04_NoBoth == \A p \in DOMAIN shared : shared[p].dir \in {"ToDevice", "FromDevice"}

\* C05: with event index, once a completion has been consumed the used-event index
\* equals the number consumed, so a standard-following device interrupts for the next one
C05_Rearmed == (cfg.eventIdx /\ op = NoOp /\ lastUsed # 0) => usedEvent = lastUsed

TypeOK ==
  /\ availIdx \in 0..IdxMod-1 /\ lastUsed \in 0..IdxMod-1 /\ idxMem \in 0..IdxMod-1
  /\ usedIdx \in 0..IdxMod-1
  /\ DOMAIN held \subseteq 0..N-1

=============================================================================
