-------------------------------- MODULE PciMC --------------------------------
(* Model-level checks for Pci.tla:
   (a) the window-containment test written with limb arithmetic is the mathematical test
       offset + length <= size - exhaustively for all 16-bit-boundary patterns of offset and length
       (values whose sum wraps in 32 bits included) against BAR sizes 2^4 .. 2^63;
   (b) a formula that adds in 32 bits (the defect repaired in /repo) differs from it (vacuity guard);
   (c) FirstCap selects the first qualifying capability for every list over a small menu. *)
EXTENDS Pci
Pats == {0, 1, 2, 32767, 32768, 65532, 65534, 65535}
Vals32 == { <<a, b>> : a \in Pats, b \in Pats }
Sizes == { [i \in 1..4 |-> IF i = k THEN v ELSE 0] : k \in 1..4, v \in {16, 4096, 32768} }
\* exact comparison by schoolbook addition into 3 limbs
Sum3(x, y) == LET s1 == x[1] + y[1] s2 == x[2] + y[2] + (s1 \div 65536) IN <<s1 % 65536, s2 % 65536, s2 \div 65536, 0>>
ASSUME \A x \in Vals32, y \in Vals32, s \in Sizes :
          WLe(WAdd(W4(x), W4(y)), s) = WLe(Sum3(x, y), s)
Wrap32(x, y) == LET t == Sum3(x, y) IN <<t[1], t[2], 0, 0>>
ASSUME \E x \in Vals32, y \in Vals32, s \in Sizes : WLe(Wrap32(x, y), s) /\ ~WLe(Sum3(x, y), s)
Menu == { [id |-> i, cap_len |-> cl, cfg_type |-> t, bar |-> b] : i \in {9, 5}, cl \in {12, 16, 20}, t \in {1, 2}, b \in {0, 6} }
ASSUME \A a \in Menu, b \in Menu, c \in Menu : \A t \in {1, 2} :
          LET caps == <<a, b, c>> k == FirstCap(caps, t) IN
          IF k = 0 THEN \A i \in 1..3 : ~Qualifies(caps[i], t)
          ELSE Qualifies(caps[k], t) /\ \A j \in 1..(k - 1) : ~Qualifies(caps[j], t)
VARIABLE dummy
Init == PInit /\ dummy = 0
Next == UNCHANGED <<pvars, dummy>>
=============================================================================
