----------------------------- MODULE MmioTrace -----------------------------
EXTENDS Mmio, Json, IOUtils
Rec == ndJsonDeserialize(IOEnv.TRACE)
VARIABLE l
tvars == <<mvars, l>>
Ev == Rec[l]
Is(name) == l <= Len(Rec) /\ Rec[l].e = name /\ l' = l + 1

TraceInit == l = 1 /\ MInit(2, 0)
TReset == Is("MReset") /\ MReset(Ev.ver, Ev.cfg_len)
TAcc   == Is("M") /\ Acc(Ev.rw, Ev.off, Ev.w, Ev.vl)
TOp    == Is("Op") /\ OpBegin(Ev.name, Ev)
TEnd   == Is("OpEnd") /\ OpEnd(Ev)
TProbe == Is("Probe") /\ Probe(Ev, Ev.res)
TraceNext == TReset \/ TAcc \/ TOp \/ TEnd \/ TProbe
TraceSpec == TraceInit /\ [][TraceNext]_tvars
TraceAccepted ==
  LET d == TLCGet("stats").diameter IN
  IF d - 1 = Len(Rec) THEN TRUE
  ELSE /\ PrintT(<<"TRACE_REJECTED_AT", d, Rec[d]>>)
       /\ FALSE
=============================================================================
