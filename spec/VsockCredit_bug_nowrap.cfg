SPECIFICATION MCSpec
CONSTANTS
 Cap = 3
 MaxSteps = 6
 Bug = "nowrap"
INVARIANTS NeverOverrun SingleRequest
CHECK_DEADLOCK FALSE
