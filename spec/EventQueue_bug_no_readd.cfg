SPECIFICATION MCSpec
CONSTANTS
 QN = 2
 Cap = 1
 Bug = "no_readd_on_error"
INVARIANTS Stocked NeverBlocked
CHECK_DEADLOCK FALSE
