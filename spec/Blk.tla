-------------------------------- MODULE Blk --------------------------------
(***************************************************************************)
(* C14: the block driver.                                                  *)
(*                                                                         *)
(* Driver-level actions: public calls and their results, the requests the  *)
(* device decodes from the queue (type, reserved, sector, shape of the     *)
(* device-readable / device-writable parts, digest of the data part), its  *)
(* responses and the order in which it publishes completions.  Guards:     *)
(* each operation sends one request that encodes it exactly; a completion  *)
(* returns the status and data of its own request whatever the completion  *)
(* order; statuses map to results; flush only if negotiated; capacity and  *)
(* read-only state are the device's.                                       *)
(***************************************************************************)
EXTENDS Integers, Sequences, FiniteSets, TLC

QSIZE == 16
VARIABLES bcfg,   \* [cap, ro, flush, ind]
          cur,    \* the public call in progress
          out,    \* token |-> outstanding request
          usedq   \* tokens in the order the device published their completions
bvars == <<bcfg, cur, out, usedq>>
None == [op |-> "none"]

BInit(c) == bcfg = c /\ cur = None /\ out = <<>> /\ usedq = <<>>
BReset(c) == bcfg' = c /\ cur' = None /\ out' = <<>> /\ usedq' = <<>>

TypeOf(op) == CASE op \in {"read", "read_nb"} -> 0 [] op \in {"write", "write_nb"} -> 1
                [] op = "flush" -> 4 [] op = "device_id" -> 8 [] OTHER -> -1
IsWrite(op) == op \in {"write", "write_nb"}
IsRead(op)  == op \in {"read", "read_nb"}
Submitting(op) == op \in {"read", "write", "flush", "device_id", "read_nb", "write_nb"}
Blocking(op) == op \in {"read", "write", "flush", "device_id"}

StatusResult(s) == CASE s = 0 -> "Ok" [] s = 1 -> "IoError" [] s = 2 -> "Unsupported" [] s = 3 -> "NotReady" [] OTHER -> "IoError"
ResultOf(r) == IF r.ok THEN "Ok" ELSE r.err

\* the request as the device must see it
Encodes(c, r) ==
  /\ ~r.malformed
  /\ r.type = TypeOf(c.op) /\ r.reserved = 0
  /\ r.sector = (IF c.op \in {"flush", "device_id"} THEN "0x0" ELSE c.sector)
  /\ r.rl = (IF IsWrite(c.op) THEN <<16, 512 * c.n>> ELSE <<16>>)                     \* header, then data to write
  /\ r.wl = (CASE IsRead(c.op) -> <<512 * c.n, 1>> [] c.op = "device_id" -> <<20, 1>> [] OTHER -> <<1>>)  \* status last
  /\ IsWrite(c.op) => r.dg = c.dg                                                    \* exactly the caller's bytes

Info(cap, ro) == cap = bcfg.cap /\ ro = bcfg.ro /\ UNCHANGED bvars

Outstanding == Cardinality(DOMAIN out)
Full == IF bcfg.ind THEN Outstanding >= QSIZE ELSE 3 * Outstanding + 3 > QSIZE

Call(c) ==
  /\ cur = None
  /\ cur' = [op |-> c.op, sector |-> IF "sector" \in DOMAIN c THEN c.sector ELSE "0x0",
             n |-> IF "n" \in DOMAIN c THEN c.n ELSE 0, dg |-> IF "dg" \in DOMAIN c THEN c.dg ELSE "",
             tok |-> IF "tok" \in DOMAIN c THEN c.tok ELSE -1, bound |-> FALSE]
  /\ UNCHANGED <<bcfg, out, usedq>>

Entry(c, seen) == [op |-> c.op, sector |-> c.sector, n |-> c.n, dg |-> c.dg, seen |-> seen, status |-> -1, rdg |-> "", rid |-> <<>>]

DevReq(tok, r) ==
  IF tok \in DOMAIN out /\ ~out[tok].seen
  THEN \* a request submitted earlier through the non-blocking interface
       /\ Encodes(out[tok], r)
       /\ out' = [out EXCEPT ![tok].seen = TRUE]
       /\ UNCHANGED <<bcfg, cur, usedq>>
  ELSE \* the request of the call in progress
       /\ cur # None /\ Submitting(cur.op) /\ ~cur.bound
       /\ ~(cur.op = "flush" /\ ~bcfg.flush)                 \* no flush request unless negotiated
       /\ Encodes(cur, r)
       /\ tok \notin DOMAIN out
       /\ cur' = [cur EXCEPT !.tok = tok, !.bound = TRUE]
       /\ out' = (tok :> Entry(cur, TRUE)) @@ out
       /\ UNCHANGED <<bcfg, usedq>>

\* (id: the 20 bytes supplied in answer to an id query, <<>> for the other requests)
DevResp(tok, status, dg, id) ==
  /\ tok \in DOMAIN out /\ out[tok].seen
  /\ out' = [out EXCEPT ![tok].status = status, ![tok].rdg = dg, ![tok].rid = id]
  /\ UNCHANGED <<bcfg, cur, usedq>>
DevDone(tok) == usedq' = Append(usedq, tok) /\ UNCHANGED <<bcfg, cur, out>>

\* the id string is NUL-padded: its length is the position of the first NUL, all 20 bytes if none
IdLen(id) == IF \E i \in 1..Len(id) : id[i] = 0
             THEN (CHOOSE i \in 1..Len(id) : id[i] = 0 /\ \A j \in 1..(i - 1) : id[j] # 0) - 1
             ELSE Len(id)

\* result of consuming the completion of `tok` for an operation of kind op
Consumed(tok, r) ==
  /\ usedq # <<>> /\ Head(usedq) = tok /\ tok \in DOMAIN out /\ out[tok].status # -1
  /\ ResultOf(r) = StatusResult(out[tok].status)
  /\ (r.ok /\ (IsRead(out[tok].op) \/ out[tok].op = "device_id")) => r.dg = out[tok].rdg   \* exactly what the device supplied
  /\ (r.ok /\ out[tok].op = "device_id" /\ "len" \in DOMAIN r) => r.len = IdLen(out[tok].rid)
  /\ usedq' = Tail(usedq)
  /\ out' = [t \in DOMAIN out \ {tok} |-> out[t]]

Ret(r) ==
  /\ cur # None
  /\ CASE Blocking(cur.op) ->
            IF cur.op = "flush" /\ ~bcfg.flush
            THEN r.ok /\ ~cur.bound /\ UNCHANGED <<out, usedq>>          \* nothing sent
            ELSE cur.bound /\ Consumed(cur.tok, r)
       [] cur.op \in {"read_nb", "write_nb"} ->
            IF r.ok
            THEN /\ ~Full \/ cur.bound
                 /\ IF cur.bound THEN r.tok = cur.tok /\ UNCHANGED out
                    ELSE r.tok \notin DOMAIN out /\ out' = (r.tok :> Entry(cur, FALSE)) @@ out
                 /\ UNCHANGED usedq
            ELSE r.err = "QueueFull" /\ Full /\ ~cur.bound /\ UNCHANGED <<out, usedq>>
       [] cur.op \in {"complete_read", "complete_write"} ->
            IF usedq = <<>> THEN ResultOf(r) = "NotReady" /\ UNCHANGED <<out, usedq>>
            ELSE IF Head(usedq) # cur.tok THEN ResultOf(r) = "WrongToken" /\ UNCHANGED <<out, usedq>>
            ELSE Consumed(cur.tok, r)
       [] OTHER -> FALSE
  /\ cur' = None /\ UNCHANGED bcfg

Peek(v) == cur = None /\ v = (IF usedq = <<>> THEN -1 ELSE Head(usedq)) /\ UNCHANGED bvars

\* invariants
UsedAreOutstanding == \A i \in 1..Len(usedq) : usedq[i] \in DOMAIN out
NoDuplicateCompletion == \A i, j \in 1..Len(usedq) : i # j => usedq[i] # usedq[j]
=============================================================================
