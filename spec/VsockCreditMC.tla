--------------------------- MODULE VsockCreditMC ---------------------------
(* The transmit credit window of Vsock.tla (Fits / PeerFree, as the driver must compute it) against
   a peer with a receive buffer of Cap bytes that consumes at its own pace and reports its
   (buf_alloc, fwd_cnt) at arbitrary instants.  Counters are the real 32-bit free-running ones (two
   16-bit limbs) and *start just below the wrap*, so every interleaving is explored across the
   wrap.  Invariant: the bytes in flight never exceed what the peer's buffer can hold, and a send
   that is refused issues at most one credit request until a credit update arrives.
   Bug = "nowrap": compares with non-modular arithmetic on the low limb only (vacuity guard). *)
EXTENDS Vsock
CONSTANTS Cap, MaxSteps, Bug
VARIABLES c, peer, steps, requests
mvars == <<vvars, c, peer, steps, requests>>
Start == <<65533, 65535>>                      \* 2^32 - 3
MCInit == /\ VInit([cid |-> 42, cap |-> 4, qsize |-> 8, ready |-> TRUE])
          /\ c = [NewConn EXCEPT !.txCnt = Start, !.pfc = Start, !.pba = WFromNat(Cap, 2)]
          /\ peer = [received |-> Start, consumed |-> Start]
          /\ steps = 0 /\ requests = 0
BugFits(cc, n) == n <= cc.pba[1] - (cc.txCnt[1] - cc.pfc[1])
Send(n) ==
  /\ steps < MaxSteps
  /\ IF (IF Bug = "nowrap" THEN BugFits(c, n) ELSE Fits(c, n))
     THEN /\ c' = [c EXCEPT !.txCnt = WAdd(@, WFromNat(n, 2))]
          /\ peer' = [peer EXCEPT !.received = WAdd(@, WFromNat(n, 2))]
          /\ UNCHANGED requests
     ELSE /\ c' = [c EXCEPT !.pend = TRUE]
          /\ requests' = IF c.pend THEN requests ELSE requests + 1
          /\ UNCHANGED peer
  /\ steps' = steps + 1
PeerConsume == /\ peer.consumed # peer.received
               /\ peer' = [peer EXCEPT !.consumed = WAdd(@, <<1, 0>>)]
               /\ UNCHANGED <<c, steps, requests>>
PeerUpdate == /\ c' = [c EXCEPT !.pfc = peer.consumed, !.pba = WFromNat(Cap, 2), !.pend = FALSE]
              /\ requests' = 0
              /\ UNCHANGED <<peer, steps>>
MCNext == ((\E n \in 0..Cap + 1 : Send(n)) \/ PeerConsume \/ PeerUpdate) /\ UNCHANGED vvars
MCSpec == MCInit /\ [][MCNext]_mvars
\* bytes received and not yet consumed always fit the peer's buffer
NeverOverrun == WLe(WSub(peer.received, peer.consumed), WFromNat(Cap, 2))
SingleRequest == requests <= 1
=============================================================================
