INIT Init
NEXT Next
