----------------------------- MODULE VsockTrace -----------------------------
EXTENDS Vsock, Json, IOUtils
Rec == ndJsonDeserialize(IOEnv.TRACE)
VARIABLE l
tvars == <<vvars, l>>
Ev == Rec[l]
Is(name) == l <= Len(Rec) /\ Rec[l].e = name /\ l' = l + 1
TraceInit == l = 1 /\ VInit([cid |-> 0, cap |-> 0, qsize |-> 0, ready |-> FALSE])
TReset == Is("VsReset") /\ VReset([cid |-> Ev.cid, cap |-> Ev.cap, qsize |-> Ev.qsize, ready |-> FALSE])
TCall  == Is("Call") /\ Call(IF Ev.op = "poll" THEN [op |-> "poll", popped |-> 0] ELSE Ev)
TRet   == Is("Ret") /\ IF call.op = "new" THEN call' = None /\ txlog' = <<>> /\ vcfg' = [vcfg EXCEPT !.ready = TRUE] /\ UNCHANGED <<conns, listening, rxq, posted>> ELSE Ret(Ev)
TTx    == Is("DevTx") /\ DevTx(Ev)
TPeer  == Is("PeerPkt") /\ PeerPkt(Ev)
TQAdd  == Is("QAdd") /\ IF Ev.q = 0 THEN RxAdd ELSE UNCHANGED vvars
TQPop  == Is("QPop") /\ IF Ev.q = 0
                        THEN /\ posted > 0 /\ posted' = posted - 1
                             /\ call' = IF call.op = "poll" THEN [call EXCEPT !.popped = 1] ELSE call
                             /\ UNCHANGED <<vcfg, conns, listening, rxq, txlog>>
                        ELSE UNCHANGED vvars
TDrop  == Is("Drop") /\ call = None /\ UNCHANGED vvars
TraceNext == TReset \/ TCall \/ TRet \/ TTx \/ TPeer \/ TQAdd \/ TQPop \/ TDrop
TraceSpec == TraceInit /\ [][TraceNext]_tvars
TraceAccepted ==
  LET d == TLCGet("stats").diameter IN
  IF d - 1 = Len(Rec) THEN TRUE
  ELSE /\ PrintT(<<"TRACE_REJECTED_AT", d, Rec[d]>>)
       /\ FALSE
=============================================================================
