----------------------------- MODULE ConsoleMC -----------------------------
(* The console driver's receive path transcribed from console.rs / embedded_io.rs (poll_retrieve,
   finish_receive, recv, read, fill_buf+consume, read_ready) over the actions of Console.tla, with
   a device that fills the posted buffer with 1..Cap bytes at any instant, up to MaxStream bytes.
   Blocking reads are two-step (the device may fill during the wait).  Bug = "early_repost"
   re-posts the buffer while unread bytes remain (must be refused by the guards). *)
EXTENDS Console
CONSTANTS Cap, MaxStream, Bug
VARIABLES pc
mvars == <<cvars, pc>>
MCInit == CInit /\ pc = "idle"

\* finish_receive: pick up if the posted buffer was used
Finish(next) == IF posted /\ filled # NoFill THEN Pickup(filled.len) /\ pc' = next ELSE UNCHANGED cvars /\ pc' = next
\* poll_retrieve: post if nothing is posted and everything was consumed
PollRetrieve(next) ==
  IF ~posted /\ (Avail = 0 \/ (Bug = "early_repost" /\ Avail <= 1))
  THEN Post /\ pc' = next ELSE UNCHANGED cvars /\ pc' = next

Driver ==
  \/ pc = "idle" /\ \E o \in {"recv_peek", "recv_pop", "read_ready"} : Call([op |-> o]) /\ pc' = "finish"
  \/ pc = "idle" /\ \E n \in 1..Cap : Call([op |-> "read", n |-> n]) /\ pc' = "wait_post"
  \/ pc = "idle" /\ Call([op |-> "fill_buf"]) /\ pc' = "wait_post"
  \/ pc = "idle" /\ Avail > 0 /\ \E k \in 0..Avail : Call([op |-> "consume", k |-> k]) /\ pc' = "ret"
  \/ pc = "finish" /\ Finish(IF call.op = "recv_pop" THEN "pop" ELSE "ret")
  \* recv(pop): consume one byte, then poll_retrieve - modelled by Post's own guard
  \/ pc = "pop" /\ (IF Avail >= 1 /\ ~posted /\ (Avail = 1 \/ Bug = "early_repost") THEN Post ELSE UNCHANGED cvars) /\ pc' = "ret"
  \* wait_for_receive: poll_retrieve, then finish_receive until data
  \/ pc = "wait_post" /\ PollRetrieve("wait")
  \/ pc = "wait" /\ (IF Avail > 0 THEN UNCHANGED cvars /\ pc' = "ret" ELSE posted /\ filled # NoFill /\ Pickup(filled.len) /\ pc' = "ret")
  \/ /\ pc = "ret"
     /\ \E v \in -1..255, n \in 0..Cap, b \in BOOLEAN :
           Ret([ok |-> TRUE, v |-> v, n |-> n, first |-> IF n > 0 THEN B(chunk.start + chunk.cursor) ELSE -1, affine |-> TRUE, b |-> b])
     /\ pc' = "idle"

Device == /\ written < MaxStream /\ \E k \in 1..Cap : written + k <= MaxStream /\ DevFill(written, k)
          /\ UNCHANGED pc

MCNext == Driver \/ Device
MCSpec == MCInit /\ [][MCNext]_mvars
\* the transcription never gets stuck on a guard (except a blocking read waiting for the device)
NeverBlocked == (pc \notin {"idle", "wait"}) => ENABLED Driver
=============================================================================
