SPECIFICATION MCSpec
CONSTANTS
  NQ = 2
  Legacy = FALSE
  Bug = "queues_first"
INVARIANTS DriverNeverBlocked NoLiveWithoutInit AcceptedOK Negotiated
CHECK_DEADLOCK FALSE
