---------------------------- MODULE CreditLemma ----------------------------
(***************************************************************************)
(* C17 for the real counter width.  VsockCreditMC model-checks the credit  *)
(* window with a small counter modulus; this module states, for 32-bit     *)
(* free-running counters, that `peer_free` as coded (wrapping arithmetic,  *)
(* src/device/socket/vsock.rs after the fix of D5) equals the true free    *)
(* space of the peer, however many times the counters have wrapped:        *)
(*   T  bytes this side has sent in total  (tx_cnt      = T mod 2^32)      *)
(*   F  bytes the peer has forwarded       (peer_fwd_cnt = F mod 2^32)     *)
(*   B  the peer's buf_alloc                                               *)
(* with F <= T and T - F <= B (what the credit rule maintains).            *)
(*                                                                         *)
(* Run:  apalache-mc check --length=0 --inv=Lemma CreditLemma.tla          *)
(***************************************************************************)
EXTENDS Integers

W == 4294967296            \* 2^32
Big == 1125899906842624    \* 2^50: counters that have wrapped up to 2^18 times

VARIABLES
  \* @type: Int;
  T,
  \* @type: Int;
  F,
  \* @type: Int;
  B

WrapSub(a, b) == (a + W - b) % W

\* peer_buf_alloc.wrapping_sub(tx_cnt.wrapping_sub(peer_fwd_cnt))
CodedFree == WrapSub(B, WrapSub(T % W, F % W))

\* the checked arithmetic before the fix: defined only while nothing has wrapped
BeforeDefined == (T % W) >= (F % W)

Init == /\ T \in 0..Big /\ F \in 0..Big /\ B \in 0..(W - 1)
        /\ F <= T /\ T - F <= B
Next == UNCHANGED <<T, F, B>>

Lemma == CodedFree = B - (T - F)

\* must be refuted (vacuity guard / D5): the unfixed code panics once tx_cnt has wrapped past
\* peer_fwd_cnt
LemmaBefore == BeforeDefined
=============================================================================
