------------------------------- MODULE PcmInd -------------------------------
(***************************************************************************)
(* C20, PCM playback, for any number of frames.  PcmMC.tla model-checks    *)
(* the transcription of VirtIOSound::pcm_xfer for 5-7 bytes; this module   *)
(* restates it with @type annotations and gives an inductive invariant     *)
(* that Apalache discharges for EVERY frame count and period size (ring of *)
(* up to 4 slots, device completing in submission order):                  *)
(*     apalache-mc check --cinit=CInit --init=IndInit --inv=IndInv --length=1 *)
(*     apalache-mc check --cinit=CInit --init=Init --inv=IndInv --length=0    *)
(* IndInv implies the property-level claims (Safety): chunks are           *)
(* consecutive pieces of the caller's frames, each 1..Period bytes, never  *)
(* more than Cap outstanding, and the helper can only end with success     *)
(* after everything was delivered and consumed.                            *)
(***************************************************************************)
EXTENDS Integers, Sequences, Apalache

CONSTANTS
  \* @type: Int;
  Frames,
  \* @type: Int;
  Period,
  \* @type: Int;
  Cap

VARIABLES
  \* @type: Int;
  sent,
  \* @type: Seq({tok: Int, off: Int, len: Int});
  posted,
  \* @type: Seq(Int);
  usedq,
  \* @type: Int;
  head,
  \* @type: Int;
  tail,
  \* @type: Int -> Int;
  toks,
  \* @type: Str;
  pc,
  \* @type: Str;
  result,
  \* @type: Int;
  free

CInit == Frames \in 0..1000000000 /\ Period \in 1..1000000000 /\ Cap \in 1..4

Init == /\ sent = 0 /\ posted = <<>> /\ usedq = <<>> /\ head = 0 /\ tail = 0
        /\ toks = [i \in 0..3 |-> -1]
        /\ pc = "loop" /\ result = "none" /\ free = Cap

FreshTok(t) == t \in 0..Cap /\ \A i \in 1..4 : i <= Len(posted) => posted[i].tok # t

AddChunk ==
  /\ pc = "loop" /\ free >= 1 /\ sent < Frames
  /\ \E t \in 0..4 :
       /\ FreshTok(t)
       /\ LET len == IF Frames - sent < Period THEN Frames - sent ELSE Period IN
          /\ posted' = Append(posted, [tok |-> t, off |-> sent, len |-> len])
          /\ toks' = [toks EXCEPT ![head] = t]
          /\ sent' = sent + len
  /\ head' = (head + 1) % Cap /\ free' = free - 1 /\ pc' = "pop"
  /\ UNCHANGED <<usedq, tail, result>>

NoAdd ==
  /\ pc = "loop" /\ (free = 0 \/ sent = Frames)
  /\ IF sent = Frames /\ head = tail /\ free = Cap
     THEN pc' = "done" /\ result' = "Ok"
     ELSE pc' = "pop" /\ UNCHANGED result
  /\ UNCHANGED <<sent, posted, usedq, head, tail, toks, free>>

Pop ==
  /\ pc = "pop"
  /\ IF usedq = <<>> THEN pc' = "loop" /\ UNCHANGED <<usedq, tail, result, posted, free>>
     ELSE IF Head(usedq) # toks[tail]
     THEN pc' = "done" /\ result' = "WrongToken" /\ UNCHANGED <<usedq, tail, posted, free>>
     ELSE /\ usedq' = Tail(usedq) /\ tail' = (tail + 1) % Cap /\ free' = free + 1
          \* the chain with that token leaves the queue (tokens are distinct, see IndInv)
          /\ Head(usedq) = posted[1].tok /\ posted' = Tail(posted)
          /\ pc' = "loop" /\ UNCHANGED result
  /\ UNCHANGED <<sent, head, toks>>

\* the device completes the oldest chain it has not completed yet
Device ==
  /\ pc # "done"
  /\ Len(usedq) < Len(posted)
  /\ usedq' = Append(usedq, posted[Len(usedq) + 1].tok)
  /\ UNCHANGED <<sent, posted, head, tail, toks, pc, result, free>>

Next == AddChunk \/ NoAdd \/ Pop \/ Device

\* negative instance (known finding D11): a device completing outstanding chains in any order
DeviceAny ==
  /\ pc # "done"
  /\ \E i \in 1..4 :
       /\ i <= Len(posted)
       /\ \A j \in 1..4 : j <= Len(usedq) => usedq[j] # posted[i].tok
       /\ usedq' = Append(usedq, posted[i].tok)
  /\ UNCHANGED <<sent, posted, head, tail, toks, pc, result, free>>
NextOoo == AddChunk \/ NoAdd \/ Pop \/ DeviceAny

Idx == 1..4

IndInv ==
  /\ sent \in 0..Frames
  /\ head \in 0..(Cap - 1) /\ tail \in 0..(Cap - 1)
  /\ pc \in {"loop", "pop", "done"} /\ result \in {"none", "Ok", "WrongToken"}
  /\ DOMAIN toks = 0..3
  /\ Len(posted) <= Cap /\ Len(usedq) <= Len(posted)
  /\ free = Cap - Len(posted)
  /\ head = (tail + Len(posted)) % Cap
  /\ \A k \in Idx : k <= Len(posted) =>
        /\ toks[(tail + k - 1) % Cap] = posted[k].tok
        /\ posted[k].tok \in 0..Cap
        /\ posted[k].len >= 1 /\ posted[k].len <= Period
        /\ posted[k].off >= 0
        /\ (k < Len(posted) => posted[k + 1].off = posted[k].off + posted[k].len)
        /\ (k = Len(posted) => posted[k].off + posted[k].len = sent)
        /\ \A j \in Idx : (j <= Len(posted) /\ j # k) => posted[j].tok # posted[k].tok
  /\ \A j \in Idx : j <= Len(usedq) => usedq[j] = posted[j].tok
  /\ (pc = "done") = (result # "none")
  /\ result # "WrongToken"
  /\ pc = "done" => (sent = Frames /\ Len(posted) = 0)

\* what the property says (implied by IndInv, stated separately for reading)
Safety ==
  /\ Len(posted) <= Cap
  /\ \A k \in Idx : k <= Len(posted) => posted[k].len \in 1..Period
  /\ pc = "done" => (result = "Ok" /\ sent = Frames /\ posted = <<>>)

IndInit ==
  /\ sent = Gen(1) /\ posted = Gen(4) /\ usedq = Gen(4) /\ head = Gen(1) /\ tail = Gen(1)
  /\ toks = Gen(4) /\ pc = Gen(1) /\ result = Gen(1) /\ free = Gen(1)
  /\ IndInv
=============================================================================
