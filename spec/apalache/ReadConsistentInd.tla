-------------------------- MODULE ReadConsistentInd --------------------------
(***************************************************************************)
(* C13, untorn multi-field reads, for ANY number of device updates and any *)
(* number of fields.  ConfigMC.tla model-checks Transport::read_consistent *)
(* (generation before, the fields, generation after, retry if different)   *)
(* for 3 fields and at most 3 updates; this module restates the loop with  *)
(* @type annotations and gives an inductive invariant that Apalache        *)
(* discharges with the update count unbounded:                             *)
(*   apalache-mc check --cinit=CInit --init=Init    --inv=IndInv --length=0 *)
(*   apalache-mc check --cinit=CInit --init=IndInit --inv=IndInv --length=1 *)
(* The device replaces its configuration at any instant; every replacement *)
(* is a new snapshot (snap + 1) under a generation different from all      *)
(* earlier ones (a fresh value - generation reuse, e.g. an 8-bit counter   *)
(* wrapping completely during one read, is outside what any reader can     *)
(* detect).  Returned: the snapshots the fields were read from must be one. *)
(***************************************************************************)
EXTENDS Integers, Apalache

CONSTANTS
  \* @type: Int;
  NFields

VARIABLES
  \* @type: Int;
  gen,       \* the device's generation
  \* @type: Int;
  snap,      \* the device's current snapshot
  \* @type: Str;
  pc,        \* "gen1" | "fields" | "gen2" | "ret" | "done"
  \* @type: Int;
  before,    \* generation read at the start of this attempt
  \* @type: Int;
  bsnap,     \* (ghost) the snapshot that was current when `before` was read
  \* @type: Int;
  nread,     \* fields read in this attempt
  \* @type: Int;
  lo,        \* (ghost) smallest snapshot a field of this attempt was read from
  \* @type: Int;
  hi         \* (ghost) largest one

CInit == NFields \in 1..1000

Init == /\ gen = 0 /\ snap = 0 /\ pc = "gen1" /\ before = 0 /\ bsnap = 0 /\ nread = 0 /\ lo = 0 /\ hi = 0

\* generations are injective in the snapshot: modelled as gen = snap (a fresh value each time)
DevUpdate == /\ pc # "done"
             /\ snap' = snap + 1 /\ gen' = gen + 1
             /\ UNCHANGED <<pc, before, bsnap, nread, lo, hi>>

Gen1 == /\ pc = "gen1"
        /\ before' = gen /\ bsnap' = snap /\ nread' = 0 /\ lo' = snap /\ hi' = snap
        /\ pc' = "fields" /\ UNCHANGED <<gen, snap>>
Field == /\ pc = "fields"
         /\ nread' = nread + 1
         /\ lo' = (IF nread = 0 THEN snap ELSE lo) /\ hi' = snap
         /\ pc' = (IF nread + 1 = NFields THEN "gen2" ELSE "fields")
         /\ UNCHANGED <<gen, snap, before, bsnap>>
Gen2 == /\ pc = "gen2"
        /\ pc' = (IF gen = before THEN "ret" ELSE "gen1")
        /\ UNCHANGED <<gen, snap, before, bsnap, nread, lo, hi>>
Ret  == /\ pc = "ret" /\ pc' = "done"
        /\ UNCHANGED <<gen, snap, before, bsnap, nread, lo, hi>>

\* negative instance: the second generation read is dropped (single pass)
FieldSingle == /\ pc = "fields"
               /\ nread' = nread + 1
               /\ lo' = (IF nread = 0 THEN snap ELSE lo) /\ hi' = snap
               /\ pc' = (IF nread + 1 = NFields THEN "ret" ELSE "fields")
               /\ UNCHANGED <<gen, snap, before, bsnap>>

Next == DevUpdate \/ Gen1 \/ Field \/ Gen2 \/ Ret
NextSinglePass == DevUpdate \/ Gen1 \/ FieldSingle \/ Ret

\* the property: what is returned was read from one snapshot
Untorn == pc \in {"ret", "done"} => lo = hi

IndInv ==
  /\ gen = snap /\ snap >= 0
  /\ pc \in {"gen1", "fields", "gen2", "ret", "done"}
  /\ nread \in 0..NFields
  /\ (pc = "fields" => nread < NFields)
  /\ (pc \in {"gen2", "ret", "done"} => nread = NFields)
  /\ (pc # "gen1" =>
        /\ before = bsnap /\ bsnap <= lo /\ lo <= hi /\ hi <= snap)
  /\ (pc \in {"ret", "done"} => (hi = bsnap /\ lo = hi))

IndInit ==
  /\ gen = Gen(1) /\ snap = Gen(1) /\ pc = Gen(1) /\ before = Gen(1) /\ bsnap = Gen(1)
  /\ nread = Gen(1) /\ lo = Gen(1) /\ hi = Gen(1)
  /\ IndInv
=============================================================================
