---------------------------- MODULE NotifyLemma ----------------------------
(***************************************************************************)
(* C05 for the real index width.  VirtQueueMC checks `ImplNotifyOk` (the   *)
(* coded should_notify never says "no" where the standard's                *)
(* vring_need_event says "yes") exhaustively, but for index moduli 4 and 8 *)
(* only.  This module states the same implication as an arithmetic fact    *)
(* over free-running 16-bit indices and lets Apalache (SMT) discharge it   *)
(* for modulus 65536: all old, new, event in 0..65535 with at most 32768   *)
(* submissions between two checks (the property bounds a batch by the      *)
(* queue size, at most 32768).                                             *)
(*                                                                         *)
(* Run:  apalache-mc check --length=0 --inv=Lemma NotifyLemma.tla          *)
(***************************************************************************)
EXTENDS Integers

M == 65536

VARIABLES
  \* @type: Int;
  old,
  \* @type: Int;
  new,
  \* @type: Int;
  ev

Sub(a, b) == (a + M - b) % M
Inc(a) == (a + 1) % M

\* vring_need_event(event, new, old) of Virtio 1.2 2.7.7.2 / 2.7.10
NeedEvent(e, n, o) == Sub(Sub(n, e), 1) < Sub(n, o)

\* should_notify as coded after the fix of D1: (avail_idx - (avail_event + 1)) as i16 >= 0
Coded(e, n) == Sub(n, Inc(e)) < M \div 2

\* the code before the fix: avail_idx >= avail_event + 1 without wrap-around
CodedBefore(e, n) == n >= Inc(e)

Init == /\ old \in 0..(M - 1) /\ new \in 0..(M - 1) /\ ev \in 0..(M - 1)
        /\ Sub(new, old) <= M \div 2
Next == UNCHANGED <<old, new, ev>>

Lemma == NeedEvent(ev, new, old) => Coded(ev, new)

\* must be refuted (vacuity guard): the unfixed comparison loses a notification at the wrap
LemmaBefore == NeedEvent(ev, new, old) => CodedBefore(ev, new)
=============================================================================
