---------------------------- MODULE VsockConnMC ----------------------------
(* Every behaviour Vsock.tla allows for two peers, two local ports (one of which may be listened
   on), peer packets from the full menu (request, response, reset, shutdown, data, credit update /
   request, invalid and unknown operations, foreign destination cid) and all local operations,
   depth-bounded.  Checks the invariants, that a call can always come to a result, and isolation:
   a step changes at most the one connection it names. *)
EXTENDS Vsock
CONSTANTS MaxSteps
VARIABLES steps
mvars == <<vvars, steps>>
Peers == {<<2, 1000>>, <<3, 1000>>}
LPorts == {80}
MCInit == VInit([cid |-> 42, cap |-> 2, qsize |-> 2, ready |-> TRUE]) /\ posted' = 2 /\ steps = 0
Init2 == vcfg = [cid |-> 42, cap |-> 2, qsize |-> 2, ready |-> TRUE] /\ conns = <<>> /\ listening = {} /\ rxq = <<>>
         /\ posted = 2 /\ call = None /\ txlog = <<>> /\ steps = 0
Pk(pe, lp, opc, len, dcid) ==
  [src_cid |-> pe[1], src_port |-> pe[2], dst_cid |-> dcid, dst_port |-> lp, op |-> opc, len |-> len, body_len |-> len,
   type |-> 1, flags |-> 0, bal |-> <<2, 0>>, fcl |-> <<0, 0>>, used_len |-> HDR + len, first |-> 3, affine |-> TRUE, dg |-> ""]
TxFor(k, cc, opc, len) ==
  [src_cid |-> 42, dst_cid |-> k[1], dst_port |-> k[2], src_port |-> k[3], type |-> 1, op |-> opc, len |-> len, body_len |-> len,
   bal |-> WFromNat(2, 2), fcl |-> cc.fwd, flags |-> IF opc = OP_SHUTDOWN THEN 3 ELSE 0, dg |-> "d"]
Errs == {"", "NotConnected", "ConnectionExists", "PeerSocketShutdown", "InsufficientBufferSpaceInPeer", "BufferTooShort",
         "UnknownOperation", "InvalidOperation", "UnexpectedDataInPacket", "OutputBufferTooShort"}
Evs == {"none", "ConnectionRequest", "Connected", "Disconnected", "Received", "CreditUpdate"}
Results(p) == { [ok |-> ok, err |-> e, ev |-> ev, reason |-> rs, len |-> p.len, n |-> n, b |-> b, runs |-> rn,
                 src_cid |-> p.src_cid, src_port |-> p.src_port, dst_cid |-> p.dst_cid, dst_port |-> p.dst_port, bal |-> p.bal, fcl |-> p.fcl] :
                 ok \in BOOLEAN, e \in Errs, ev \in Evs, rs \in {"", "Reset", "Shutdown"}, n \in 0..2, b \in BOOLEAN,
                 rn \in {<<>>, <<<<3, 1>>>>, <<<<3, 2>>>>, <<<<10, 1>>>>, <<<<3, 1>>, <<3, 1>>>>, <<<<10, 1>>, <<3, 1>>>>} }
DummyP == Pk(<<2, 1000>>, 80, 6, 0, 42)
Env ==
  \/ \E pe \in Peers, lp \in LPorts, o \in {"connect", "send", "recv", "force_close", "update_credit"}, n \in 0..1 :
        Call([op |-> o, cid |-> pe[1], port |-> pe[2], lport |-> lp, n |-> n, dg |-> "d"])
  \/ \E lp \in LPorts, o \in {"listen"} : Call([op |-> o, lport |-> lp])
  \/ Call([op |-> "poll", popped |-> 0])
  \/ \E pe \in Peers, lp \in LPorts, opc \in {0, 1, 2, 4, 5, 6, 7}, len \in 0..1, dcid \in {42} :
        /\ Len(rxq) < 2 /\ (len > 0 => opc \in {5, 6}) /\ PeerPkt(Pk(pe, lp, opc, len, dcid))
  \* poll consumes the oldest delivered packet and re-posts the buffer
  \/ /\ call.op = "poll" /\ call.popped = 0 /\ rxq # <<>> /\ posted = vcfg.qsize
     /\ call' = [call EXCEPT !.popped = 1] /\ posted' = posted - 1 /\ UNCHANGED <<vcfg, conns, listening, rxq, txlog>>
  \/ call.op = "poll" /\ call.popped = 1 /\ posted < vcfg.qsize /\ RxAdd
  \* transmit packets: whatever packet the guards will accept
  \/ /\ call # None /\ txlog = <<>>
     /\ \E pe \in Peers, lp \in LPorts, opc \in 1..7, len \in 0..1 :
          LET k == Key(pe[1], pe[2], lp) IN
          \E cc \in {NewConn} \cup (IF k \in DOMAIN conns THEN {conns[k], Credit(conns[k], IF rxq # <<>> THEN Head(rxq) ELSE DummyP),
                                                                  [conns[k] EXCEPT !.fwd = WAdd(@, WFromNat(IF call.op = "recv" /\ call.n < conns[k].buffered THEN call.n ELSE conns[k].buffered, 2))]}
                                   ELSE {Credit(NewConn, IF rxq # <<>> THEN Head(rxq) ELSE DummyP)}) :
            DevTx(TxFor(k, cc, opc, len))
  \/ /\ call # None /\ (call.op = "poll" => (call.popped = 0 \/ posted = vcfg.qsize))
     /\ \E r \in Results(IF call.op = "poll" /\ call.popped = 1 /\ rxq # <<>> THEN Head(rxq) ELSE DummyP) : Ret(r)
MCNext == Env /\ steps' = steps + 1 /\ steps < MaxSteps
MCSpec == Init2 /\ [][MCNext]_mvars
CanFinish == (call # None /\ steps < MaxSteps /\ (call.op = "poll" => (call.popped = 0 \/ posted = vcfg.qsize))) => ENABLED MCNext
\* isolation: one step changes at most one connection
Isolation == [][Cardinality({ k \in (DOMAIN conns) \cup (DOMAIN conns') :
                                 ~(k \in DOMAIN conns /\ k \in DOMAIN conns' /\ conns[k] = conns'[k]) }) <= 1]_mvars
=============================================================================
