SPECIFICATION TraceSpec
INVARIANTS WithinCapacity
POSTCONDITION TraceAccepted
CHECK_DEADLOCK FALSE
