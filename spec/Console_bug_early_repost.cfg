SPECIFICATION MCSpec
CONSTANTS
 Cap = 3
 MaxStream = 5
 Bug = "early_repost"
INVARIANTS NothingLost StreamAccounted NeverBlocked
CHECK_DEADLOCK FALSE
