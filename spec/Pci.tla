--------------------------------- MODULE Pci ---------------------------------
(***************************************************************************)
(* C11: the virtio-pci transport.                                          *)
(*                                                                         *)
(* Part 1 - construction.  A configuration is a capability list and a BAR  *)
(* table.  The property is one-directional: if construction succeeds, the  *)
(* regions it mapped are exactly the common / notification / ISR (and, if  *)
(* present, device-configuration) windows described by the *first*         *)
(* sufficiently long virtio capability of each type, and each window lies  *)
(* wholly inside an allocated memory BAR - computed without wrap-around    *)
(* for all 32-bit offsets and lengths - and is large enough and aligned    *)
(* for its use.  A failure is always acceptable; a panic never is.  The    *)
(* function's configuration space is unchanged afterwards.                 *)
(*                                                                         *)
(* Part 2 - operations: the access pattern of every Transport operation    *)
(* in the standard common-configuration layout (Virtio 1.2 4.1.4.3).       *)
(***************************************************************************)
EXTENDS Wide, Bitwise, FiniteSets, TLC

VARIABLES pcfg,      \* [caps, bars] of the function under construction
          maps,      \* regions requested through mmio_phys_to_virt so far: sequence of [pal, sizel]
          pdev,      \* parameters of the device used for the operation scripts
          op, acc, selected
pvars == <<pcfg, maps, pdev, op, acc, selected>>
NoOp == [name |-> "none"]
NoCfg == [caps |-> <<>>, bars |-> <<>>]
NoDev == [mult |-> 0, cfg_len |-> 0, has_cfg |-> FALSE, noffs |-> <<>>, notify_len |-> 0, nq |-> 0]

PInit == pcfg = NoCfg /\ maps = <<>> /\ pdev = NoDev /\ op = NoOp /\ acc = <<>> /\ selected = -1

\* ---------------------------------------------------------------- part 1
MinCapLen(t) == IF t = 2 THEN 20 ELSE 16
\* (capabilities whose bar value is reserved must be ignored: Virtio 1.2 4.1.4)
Qualifies(c, t) == c.id = 9 /\ c.cap_len >= MinCapLen(t) /\ c.cfg_type = t /\ c.bar <= 5
\* index of the first qualifying capability of type t, 0 if none
FirstCap(caps, t) ==
  IF \E i \in 1..Len(caps) : Qualifies(caps[i], t)
  THEN CHOOSE i \in 1..Len(caps) : Qualifies(caps[i], t) /\ \A j \in 1..(i - 1) : ~Qualifies(caps[j], t)
  ELSE 0

MinLen(t) == CASE t = 1 -> 56 [] t = 2 -> 2 [] t = 3 -> 1 [] OTHER -> 0
Align(t)  == CASE t = 1 -> 4 [] t = 2 -> 2 [] t = 3 -> 1 [] OTHER -> 4

W4(x) == WExtend(x, 4)
\* the window of capability c, used as structure type t, is valid for the BAR table
ValidWindow(c, t, bars) ==
  /\ c.bar <= 5
  /\ LET b == bars[c.bar + 1] IN
     /\ b.kind \in {"mem32", "mem64"}
     /\ b.addrl # WZero(4)                                   \* allocated
     /\ WLe(WAdd(W4(c.offl), W4(c.lenl)), b.sizel)            \* offset + length <= BAR size, no wrap
     /\ WToNat(c.lenl) = -1 \/ WToNat(c.lenl) >= MinLen(t)
     /\ (c.offl[1] + b.addrl[1]) % Align(t) = 0
WindowOf(c, bars) == [pal |-> WAdd(bars[c.bar + 1].addrl, W4(c.offl)), sizel |-> W4(c.lenl)]

Types == {1, 2, 3, 4}
Required == {1, 2, 3}

NewOkAllowed(caps, bars, ms) ==
  /\ \A t \in Required : FirstCap(caps, t) # 0
  /\ \A t \in Types : FirstCap(caps, t) # 0 => ValidWindow(caps[FirstCap(caps, t)], t, bars)
  \* exactly the windows of the selected capabilities were mapped
  /\ { ms[i] : i \in 1..Len(ms) } =
       { WindowOf(caps[FirstCap(caps, t)], bars) : t \in { u \in Types : FirstCap(caps, u) # 0 } }

PciCfg(caps, bars) == pcfg' = [caps |-> caps, bars |-> bars] /\ maps' = <<>> /\ UNCHANGED <<pdev, op, acc, selected>>
PhysToVirt(pal, sizel) == maps' = Append(maps, [pal |-> pal, sizel |-> sizel]) /\ UNCHANGED <<pcfg, pdev, op, acc, selected>>
PciNewRet(isOk, isPanic, unchanged, wdec) ==
  /\ ~isPanic                                   \* an error or a transport, never a panic
  /\ unchanged /\ wdec = 0                      \* configuration space as it was; no sizing while decoding
  /\ isOk => NewOkAllowed(pcfg.caps, pcfg.bars, maps)
  /\ UNCHANGED pvars

\* after a successful construction every access goes to a mapped window at an offset inside it
\* (sp "adhoc": a region the harness had not prepared - still fine if it was legitimately mapped)
AccInWindow(off, w, pa) ==
  off >= 0 /\ \E i \in 1..Len(maps) : maps[i].pal = pa /\ (WToNat(maps[i].sizel) = -1 \/ off + w <= WToNat(maps[i].sizel))

\* ---------------------------------------------------------------- part 2
PReset(d) == pdev' = d /\ op' = NoOp /\ acc' = <<>> /\ selected' = -1 /\ UNCHANGED <<pcfg, maps>>

\* common configuration layout: offset |-> [width, rw]
Field(off) ==
  CASE off = 0  -> [w |-> 4, rw |-> "rw"]   \* device_feature_select
    [] off = 4  -> [w |-> 4, rw |-> "r"]    \* device_feature
    [] off = 8  -> [w |-> 4, rw |-> "rw"]   \* driver_feature_select
    [] off = 12 -> [w |-> 4, rw |-> "rw"]   \* driver_feature
    [] off = 16 -> [w |-> 2, rw |-> "rw"]   \* msix_config
    [] off = 18 -> [w |-> 2, rw |-> "r"]    \* num_queues
    [] off = 20 -> [w |-> 1, rw |-> "rw"]   \* device_status
    [] off = 21 -> [w |-> 1, rw |-> "r"]    \* config_generation
    [] off = 22 -> [w |-> 2, rw |-> "rw"]   \* queue_select
    [] off = 24 -> [w |-> 2, rw |-> "rw"]   \* queue_size
    [] off = 26 -> [w |-> 2, rw |-> "rw"]   \* queue_msix_vector
    [] off = 28 -> [w |-> 2, rw |-> "rw"]   \* queue_enable
    [] off = 30 -> [w |-> 2, rw |-> "r"]    \* queue_notify_off
    [] OTHER    -> [w |-> 0, rw |-> ""]
PerQueue == {24, 26, 28, 30, 32, 36, 40, 44, 48, 52}
\* the 64-bit address fields may be accessed whole or as two 32-bit halves
Addr64(off, w) == (off \in {32, 40, 48} /\ w \in {4, 8}) \/ (off \in {36, 44, 52} /\ w = 4)

Acc(sp, rw, off, w, v) ==
  /\ CASE sp = "common" ->
            /\ \/ (Field(off).w = w /\ (rw = "r" \/ Field(off).rw = "rw"))
               \/ Addr64(off, w)
            /\ off \in PerQueue => selected # -1
       [] sp = "notify" -> rw = "w" /\ w = 2 /\ off + 2 <= pdev.notify_len
       [] sp = "isr"    -> rw = "r" /\ w = 1 /\ off = 0
       [] sp = "devcfg" -> pdev.has_cfg /\ off + w <= pdev.cfg_len
       [] OTHER -> FALSE
  /\ selected' = IF sp = "common" /\ rw = "w" /\ off = 22 THEN v[1] ELSE selected
  /\ acc' = Append(acc, [sp |-> sp, rw |-> rw, off |-> off, w |-> w, v |-> v])
  /\ UNCHANGED <<pcfg, maps, pdev, op>>

OpBegin(o) == op = NoOp /\ op' = o /\ acc' = <<>> /\ selected' = -1 /\ UNCHANGED <<pcfg, maps, pdev>>

N16(n) == <<n, 0, 0, 0>>
IsW(a, sp, off, w, val) == a.sp = sp /\ a.rw = "w" /\ a.off = off /\ a.w = w /\ a.v = val
IsR(a, sp, off, w) == a.sp = sp /\ a.rw = "r" /\ a.off = off /\ a.w = w
Lo(x) == <<x[1], x[2], 0, 0>>
Hi(x) == <<x[3], x[4], 0, 0>>
\* a 64-bit field at off written with value x: one 8-byte or two 4-byte accesses
Wrote64(off, x) ==
  \/ \E i \in 1..Len(acc) : IsW(acc[i], "common", off, 8, x)
  \/ /\ \E i \in 1..Len(acc) : IsW(acc[i], "common", off, 4, Lo(x))
     /\ \E i \in 1..Len(acc) : IsW(acc[i], "common", off + 4, 4, Hi(x))
Touched == UNION { { acc[i].off + k : k \in 0..acc[i].w - 1 } : i \in 1..Len(acc) }

Pattern(name, a, r) ==
  CASE name \in {"device_type", "requires_legacy_layout", "set_guest_page_size", "queue_unset"} -> acc = <<>>
    [] name = "read_device_features" ->
         /\ Len(acc) = 4
         /\ IsW(acc[1], "common", 0, 4, N16(0)) /\ IsR(acc[2], "common", 4, 4)
         /\ IsW(acc[3], "common", 0, 4, N16(1)) /\ IsR(acc[4], "common", 4, 4)
         /\ r.vl = <<acc[2].v[1], acc[2].v[2], acc[4].v[1], acc[4].v[2]>>
    [] name = "write_driver_features" ->
         /\ Len(acc) = 4
         /\ IsW(acc[1], "common", 8, 4, N16(0)) /\ IsW(acc[2], "common", 12, 4, Lo(a.vl))
         /\ IsW(acc[3], "common", 8, 4, N16(1)) /\ IsW(acc[4], "common", 12, 4, Hi(a.vl))
    [] name = "max_queue_size" ->
         /\ Len(acc) = 2 /\ IsW(acc[1], "common", 22, 2, N16(a.q)) /\ IsR(acc[2], "common", 24, 2)
         /\ r.vl = <<acc[2].v[1], 0>>
    [] name = "notify" ->
         \* select, read the queue's notify offset, write the queue index at offset * multiplier
         /\ Len(acc) = 3 /\ IsW(acc[1], "common", 22, 2, N16(a.q)) /\ IsR(acc[2], "common", 30, 2)
         /\ IsW(acc[3], "notify", acc[2].v[1] * pdev.mult, 2, N16(a.q))
    [] name = "get_status" -> Len(acc) = 1 /\ IsR(acc[1], "common", 20, 1) /\ r.vl[1] = (acc[1].v[1] & 207)   \* defined status bits
    [] name = "set_status" -> Len(acc) = 1 /\ IsW(acc[1], "common", 20, 1, N16(a.vl[1] % 256))
    [] name = "drop" ->
         \* reset, then wait for the device to report 0
         /\ Len(acc) >= 2 /\ IsW(acc[1], "common", 20, 1, N16(0))
         /\ \A i \in 2..Len(acc) : IsR(acc[i], "common", 20, 1)
         /\ acc[Len(acc)].v = N16(0)
         /\ \A i \in 2..(Len(acc) - 1) : acc[i].v # N16(0)
    [] name = "queue_set" ->
         /\ Len(acc) >= 6
         /\ IsW(acc[1], "common", 22, 2, N16(a.q))                    \* select first
         /\ \E i \in 1..Len(acc) : IsW(acc[i], "common", 24, 2, N16(a.size % 65536))
         /\ Wrote64(32, a.descl) /\ Wrote64(40, a.availl) /\ Wrote64(48, a.usedl)
         /\ IsW(acc[Len(acc)], "common", 28, 2, N16(1))               \* enable last
         /\ \A i \in 1..Len(acc) : acc[i].rw = "w" /\ acc[i].sp = "common"
         /\ Cardinality({ i \in 1..Len(acc) : acc[i].off = 28 }) = 1
    [] name = "queue_used" ->
         /\ Len(acc) = 2 /\ IsW(acc[1], "common", 22, 2, N16(a.q)) /\ IsR(acc[2], "common", 28, 2)
         /\ r.b = (acc[2].v = N16(1))
    [] name = "ack_interrupt" -> Len(acc) = 1 /\ IsR(acc[1], "isr", 0, 1) /\ r.v = acc[1].v[1]
    [] name = "read_config_generation" -> Len(acc) = 1 /\ IsR(acc[1], "common", 21, 1) /\ r.v = acc[1].v[1]
    [] name \in {"read_config", "write_config"} ->
         \* C13: success only wholly inside the window, touching exactly those bytes; failure only
         \* outside its whole 32-bit words (the transport views the window as words, so an access
         \* into a trailing partial word may be refused, but never one inside the whole words)
         IF ~pdev.has_cfg THEN ~r.ok /\ r.err = "ConfigSpaceMissing" /\ acc = <<>>
         ELSE IF r.ok
         THEN /\ ~a.huge /\ a.off + a.size <= pdev.cfg_len
              /\ Touched = { a.off + k : k \in 0..a.size - 1 }
              /\ \A i \in 1..Len(acc) : acc[i].sp = "devcfg" /\ acc[i].rw = (IF name = "read_config" THEN "r" ELSE "w")
         ELSE /\ ~(~a.huge /\ a.off + a.size <= (pdev.cfg_len \div 4) * 4)
              /\ r.err = "ConfigSpaceTooSmall" /\ acc = <<>>
    [] OTHER -> FALSE

OpEnd(r) == op # NoOp /\ Pattern(op.name, op, r) /\ op' = NoOp /\ acc' = <<>> /\ UNCHANGED <<pcfg, maps, pdev, selected>>
=============================================================================
