------------------------------- MODULE NetMC -------------------------------
(* The buffer-managing driver transcribed from net/dev.rs (new: post all N buffers; receive: take
   the oldest completion and hand the buffer to the caller; recycle: post it again under a free
   token) against Net.tla, with a device that fills any posted buffer in any order and in bursts,
   frames of abstract length 0..2.  Bug = "lose_buffer" drops the buffer of a received frame
   instead of handing it out (the conservation invariant must catch it). *)
EXTENDS Net
CONSTANTS QN, Bug, V1
VARIABLES pc, nextId
mvars == <<nvars, pc, nextId>>
Hdr == IF V1 THEN 12 ELSE 10
MCInit == NInit([hdr |-> Hdr, n |-> QN, mode |-> "buf", ind |-> FALSE, ready |-> FALSE]) /\ pc = "new" /\ nextId = 100
FreeTok == CHOOSE t \in 0..QN-1 : t \notin posted
Driver ==
  \/ pc = "new" /\ Call([op |-> "new"]) /\ pc' = "posting" /\ UNCHANGED nextId
  \/ pc = "posting" /\ Cardinality(posted) < QN /\ RxAdd(FreeTok) /\ UNCHANGED <<pc, nextId>>
  \/ pc = "posting" /\ Cardinality(posted) = QN /\ Ret([ok |-> TRUE]) /\ pc' = "idle" /\ UNCHANGED nextId
  \/ pc = "idle" /\ Call([op |-> "receive"]) /\ pc' = "recv" /\ UNCHANGED nextId
  \/ pc = "recv" /\ usedq = <<>> /\ Ret([ok |-> FALSE, err |-> "NotReady"]) /\ pc' = "idle" /\ UNCHANGED nextId
  \/ pc = "recv" /\ usedq # <<>> /\ RxPop(Head(usedq), Hdr + filled[Head(usedq)].flen) /\ pc' = "recv_ret" /\ UNCHANGED nextId
  \/ /\ pc = "recv_ret"
     /\ IF Bug = "lose_buffer"
        THEN call' = None /\ UNCHANGED <<ncfg, posted, filled, usedq, last, held, txout, txs>>
        ELSE Ret([ok |-> TRUE, idx |-> nextId, packet_len |-> last.flen, dg |-> last.dg])
     /\ nextId' = nextId + 1 /\ pc' = "idle"
  \/ pc = "idle" /\ \E i \in held : Call([op |-> "recycle", idx |-> i]) /\ pc' = "recycle" /\ UNCHANGED nextId
  \/ pc = "recycle" /\ RxAdd(FreeTok) /\ pc' = "recycle_ret" /\ UNCHANGED nextId
  \/ pc = "recycle_ret" /\ Ret([ok |-> TRUE]) /\ pc' = "idle" /\ UNCHANGED nextId
  \/ pc = "idle" /\ Call([op |-> "can_recv"]) /\ pc' = "q" /\ UNCHANGED nextId
  \/ pc = "q" /\ Ret([ok |-> TRUE, b |-> usedq # <<>>]) /\ pc' = "idle" /\ UNCHANGED nextId
Device == /\ \E t \in posted \ DOMAIN filled, fl \in 0..2 : DevRx(t, fl, "f")
          /\ UNCHANGED <<pc, nextId>>
MCNext == Driver \/ Device
MCSpec == MCInit /\ [][MCNext]_mvars
NeverBlocked == pc \notin {"idle"} => ENABLED Driver
Bounded == nextId < 104          \* state constraint: a few receptions suffice (buffers are reused)
=============================================================================
