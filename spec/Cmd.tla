--------------------------------- MODULE Cmd ---------------------------------
(***************************************************************************)
(* C20: command / response drivers (entropy, clock, 9P, GPU, sound).       *)
(*                                                                         *)
(* Every public call is bracketed by Call / Ret; in between the device     *)
(* logs each request it decodes from the queue (DevCmd: wire fields per    *)
(* the standard's layouts; DevTx for sound PCM data) together with the     *)
(* response it gives.  Ret is guarded by: the requests are exactly the     *)
(* ones the operation must emit, with the caller's parameters in the       *)
(* right fields and in the required order; the result is an error for any  *)
(* response that is not the expected success type, otherwise the values    *)
(* the device reported.  GPU backing memory and PCM chunking are tracked   *)
(* as state.                                                               *)
(***************************************************************************)
EXTENDS Integers, Sequences, FiniteSets, TLC

VARIABLES ccfg, call, cmds, txs, newDma,
          \* GPU
          fb,        \* the driver holds a framebuffer (last change_resolution succeeded)
          rect,      \* [w, h] of the last attempted resolution, or NoRect
          attached,  \* resource id |-> DMA seq backing it on the device
          dma,       \* live DMA regions: seq |-> [pa, pages]
          errSeen,   \* the device has answered some request with an error
          devReset,
          \* sound
          sndUp,     \* set_up() has completed
          params,    \* stream |-> [setup, period]
          txOut,     \* transmit chains outstanding on the tx queue
          nbs,       \* non-blocking transfers the device has seen: token |-> status it answers
          nbq        \* tokens of completed non-blocking transfers, in completion order
cvars == <<ccfg, call, cmds, txs, newDma, fb, rect, attached, dma, errSeen, devReset, sndUp, params, txOut, nbs, nbq>>
None == [op |-> "none"]
NoRect == [w |-> -1, h |-> -1]
NoDma == [seq |-> 0, pa |-> "", pages |-> 0]

CInit(c) == /\ ccfg = c /\ call = None /\ cmds = <<>> /\ txs = <<>> /\ newDma = NoDma
            /\ fb = FALSE /\ rect = NoRect /\ attached = <<>> /\ dma = <<>> /\ errSeen = FALSE /\ devReset = FALSE
            /\ sndUp = FALSE /\ params = [s \in {0, 1} |-> [setup |-> FALSE, period |-> 0]] /\ txOut = 0 /\ nbs = <<>> /\ nbq = <<>>
CReset(c) == /\ ccfg' = c /\ call' = None /\ cmds' = <<>> /\ txs' = <<>> /\ newDma' = NoDma
             /\ fb' = FALSE /\ rect' = NoRect /\ attached' = <<>> /\ dma' = <<>> /\ errSeen' = FALSE /\ devReset' = FALSE
             /\ sndUp' = FALSE /\ params' = [s \in {0, 1} |-> [setup |-> FALSE, period |-> 0]] /\ txOut' = 0 /\ nbs' = <<>> /\ nbq' = <<>>

U(vs) == UNCHANGED vs
ErrOf(r) == IF r.ok THEN "Ok" ELSE r.err
Call(c) == /\ call = None /\ call' = c /\ cmds' = <<>> /\ txs' = <<>> /\ newDma' = NoDma
           /\ U(<<ccfg, fb, rect, attached, dma, errSeen, devReset, sndUp, params, txOut, nbs, nbq>>)
DevCmd(d) == /\ call # None /\ cmds' = Append(cmds, d)
             /\ U(<<ccfg, call, txs, newDma, fb, rect, attached, dma, errSeen, devReset, sndUp, params, txOut, nbs, nbq>>)
Blocking == call.op = "pcm_xfer"
DevTx(d) == /\ txs' = IF Blocking THEN Append(txs, d) ELSE txs
            /\ nbs' = IF Blocking THEN nbs ELSE (d.tok :> d.status) @@ nbs
            /\ d.wl = <<8>>
            /\ U(<<ccfg, call, cmds, newDma, fb, rect, attached, dma, errSeen, devReset, sndUp, params, txOut, nbq>>)
DevDone(q, tok) ==
  /\ nbq' = IF ccfg.kind = "sound" /\ q = 2 /\ ~Blocking /\ tok \in DOMAIN nbs THEN Append(nbq, tok) ELSE nbq
  /\ U(<<ccfg, call, cmds, txs, newDma, fb, rect, attached, dma, errSeen, devReset, sndUp, params, txOut, nbs>>)

\* ---- platform: DMA regions (GPU backing memory)
DmaAlloc(seq, pa, pages) ==
  /\ dma' = (seq :> [pa |-> pa, pages |-> pages]) @@ dma
  /\ newDma' = IF call # None THEN [seq |-> seq, pa |-> pa, pages |-> pages] ELSE newDma
  /\ U(<<ccfg, call, cmds, txs, fb, rect, attached, errSeen, devReset, sndUp, params, txOut, nbs, nbq>>)
DeviceReset == /\ devReset' = TRUE /\ attached' = <<>>
               /\ U(<<ccfg, call, cmds, txs, newDma, fb, rect, dma, errSeen, sndUp, params, txOut, nbs, nbq>>)
\* (the reset at the start of construction does not exempt what the driver does afterwards)
StatusWrite(v) == IF v = 0 THEN DeviceReset
                  ELSE /\ devReset' = FALSE
                       /\ U(<<ccfg, call, cmds, txs, newDma, fb, rect, attached, dma, errSeen, sndUp, params, txOut, nbs, nbq>>)

\* =========================================================================== entropy, 9P, clock
RngRet(r) == /\ Len(cmds) = 1 /\ cmds[1].rl = <<>> /\ cmds[1].wl = <<call.n>>
             /\ r.ok /\ r.n = cmds[1].wrote /\ r.dg = cmds[1].dg

P9Ret(r) ==
  IF call.op = "mount_tag" THEN r.ok /\ r.tag = ccfg.tag /\ cmds = <<>>
  ELSE IF call.n = 0 \/ call.cap < 7 THEN ErrOf(r) = "InvalidParam" /\ cmds = <<>>
  ELSE /\ Len(cmds) = 1 /\ cmds[1].rl = <<call.n>> /\ cmds[1].wl = <<call.cap>> /\ cmds[1].dg = call.dg
       /\ IF cmds[1].claimed = cmds[1].wrote THEN r.ok /\ r.n = cmds[1].wrote /\ r.dg = cmds[1].rdg
          ELSE ErrOf(r) = "IoError"

RtcStatus(s) == CASE s = 0 -> "Ok" [] s = 2 -> "Unsupported" [] s \in {3, 4} -> "InvalidParam" [] OTHER -> "IoError"
RtcRet(r) ==
  /\ Len(cmds) = 1
  /\ LET c == cmds[1] IN
     /\ c.reserved_zero /\ c.wl = <<16>>
     /\ CASE call.op = "num_clocks" -> c.msg = 4096 /\ c.rl = <<8>>
          [] call.op = "clock_cap"  -> c.msg = 4097 /\ c.rl = <<16>> /\ c.clock_id = call.clock_id
          [] call.op = "read"       -> c.msg = 1 /\ c.rl = <<16>> /\ c.clock_id = call.clock_id
          [] OTHER -> FALSE
     /\ IF c.status # 0 THEN ErrOf(r) = RtcStatus(c.status)
        ELSE CASE call.op = "num_clocks" -> r.ok /\ r.v = c.val.num_clocks
               [] call.op = "read" -> r.ok /\ r.v = c.val.reading
               [] call.op = "clock_cap" ->
                    IF c.val.type > 4 THEN ErrOf(r) = "Unsupported"
                    ELSE IF c.val.type = 3 /\ c.val.smear > 2 THEN ErrOf(r) = "Unsupported"
                    ELSE /\ r.ok /\ r.kind = c.val.type /\ r.alarm = (c.val.flags % 2 = 1)
                         /\ r.smear = (IF c.val.type = 3 THEN (IF c.val.smear = 0 THEN -1 ELSE c.val.smear) ELSE -1)
               [] OTHER -> FALSE

\* =========================================================================== GPU
FB == 47806      \* 0xbabe
CUR == 56030     \* 0xdade
OkType(c) == IF c.q = 1 THEN c.resp ELSE IF c.type = 256 THEN 4353 ELSE IF c.type = 266 THEN 4356 ELSE 4352
IsOk(c) == c.resp = OkType(c)
Hx(n) == n      \* numeric fields are logged twice: as hex strings (any width) and as numbers when small
CtlShape(c) == c.hdr_clean /\ c.rl = <<4096>> /\ (IF c.q = 1 THEN c.wl = <<>> ELSE c.wl = <<4096>>)
Pages(len) == (len + 4095) \div 4096

\* expected request k of an operation: a predicate on the decoded command
GpuExpect(e, c) ==
  /\ CtlShape(c) /\ c.type = e.type /\ c.q = (IF e.type \in {768, 769} THEN 1 ELSE 0)
  /\ CASE e.type = 256 -> TRUE
       [] e.type = 257 -> c.res = e.res /\ c.format = 1 /\ c.wn = e.w /\ c.hn = e.h
       [] e.type \in {258, 263} -> c.res = e.res /\ c.pad = 0
       [] e.type = 259 -> c.rectn = e.rect /\ c.scanout = 0 /\ c.res = e.res
       [] e.type = 260 -> c.rectn = e.rect /\ c.res = e.res /\ c.pad = 0
       [] e.type = 261 -> c.rectn = e.rect /\ c.offset = "0x0" /\ c.res = e.res /\ c.pad = 0
       [] e.type = 262 -> /\ c.res = e.res /\ c.nr = 1 /\ c.pad = 0 /\ c.lenn = e.len
                          /\ newDma # NoDma /\ c.addr = newDma.pa                       \* the device address of the new region
                          /\ newDma.pages * 4096 >= e.len                              \* which covers the advertised length
       [] e.type = 266 -> c.scanout = 0 /\ c.pad = 0
       [] e.type \in {768, 769} -> /\ c.scanout = 0 /\ c.x = e.x /\ c.y = e.y /\ c.pad = 0 /\ c.res = e.res
                                   /\ c.hot_x = e.hot_x /\ c.hot_y = e.hot_y
       [] OTHER -> FALSE

Teardown == << [type |-> 259, rect |-> <<0, 0, 0, 0>>, res |-> 0], [type |-> 263, res |-> FB], [type |-> 258, res |-> FB] >>
Setup(w, h) == << [type |-> 257, res |-> FB, w |-> w, h |-> h], [type |-> 262, res |-> FB, len |-> w * h * 4],
                  [type |-> 259, rect |-> <<0, 0, w, h>>, res |-> FB] >>
ChangeRes(w, h) == (IF fb THEN Teardown ELSE <<>>) \o Setup(w, h)

GpuPlan ==
  CASE call.op = "resolution" -> << [type |-> 256] >>
    [] call.op = "setup_framebuffer" -> << [type |-> 256] >> \o ChangeRes(ccfg.dwn, ccfg.dhn)
    [] call.op = "change_resolution" -> ChangeRes(call.wn, call.hn)
    [] call.op = "flush" -> IF rect = NoRect THEN <<>>
                            ELSE << [type |-> 261, rect |-> <<0, 0, rect.w, rect.h>>, res |-> FB], [type |-> 260, rect |-> <<0, 0, rect.w, rect.h>>, res |-> FB] >>
    [] call.op = "setup_cursor" -> IF call.len # 16384 THEN <<>>
                                   ELSE << [type |-> 257, res |-> CUR, w |-> 64, h |-> 64], [type |-> 262, res |-> CUR, len |-> 16384],
                                           [type |-> 261, rect |-> <<0, 0, 64, 64>>, res |-> CUR],
                                           [type |-> 768, x |-> call.x, y |-> call.y, res |-> CUR, hot_x |-> call.hot_x, hot_y |-> call.hot_y] >>
    [] call.op = "move_cursor" -> << [type |-> 769, x |-> call.x, y |-> call.y, res |-> CUR, hot_x |-> "0x0", hot_y |-> "0x0"] >>
    [] call.op = "get_edid" -> IF ccfg.edid THEN << [type |-> 266] >> ELSE <<>>
    [] OTHER -> <<>>

\* the requests seen are a prefix of the plan; every one but possibly the last was answered with success
FollowsPlan(plan) ==
  /\ Len(cmds) <= Len(plan)
  /\ \A i \in 1..Len(cmds) : GpuExpect(plan[i], cmds[i])
  /\ \A i \in 1..(Len(cmds) - 1) : IsOk(cmds[i])
  /\ (Len(cmds) < Len(plan)) => (cmds # <<>> /\ ~IsOk(cmds[Len(cmds)]))
AllOk == \A i \in 1..Len(cmds) : IsOk(cmds[i])

\* device-side effect of the answered requests on the resource / backing table
RECURSIVE Apply(_, _)
Apply(att, cs) ==
  IF cs = <<>> THEN att
  ELSE LET c == Head(cs) IN
       IF ~IsOk(c) THEN Apply(att, Tail(cs))
       ELSE IF c.type = 262 THEN Apply((c.res :> newDma.seq) @@ att, Tail(cs))
       ELSE IF c.type \in {263, 258} THEN Apply([x \in DOMAIN att \ {c.res} |-> att[x]], Tail(cs))
       ELSE Apply(att, Tail(cs))

\* backing memory stays allocated for as long as it is attached to a device resource
DmaDealloc(seq) ==
  /\ seq \in DOMAIN dma
  \* (inside a call: as far as the device has been told by the commands of this call so far)
  /\ LET att == IF call # None /\ ccfg.kind = "gpu" THEN Apply(attached, cmds) ELSE attached IN
     ~devReset => \A rid \in DOMAIN att : att[rid] = seq =>
        \* named deviation of the implementation: a call that fails after it attached its own
        \* fresh region (e.g. SET_SCANOUT refused after ATTACH_BACKING) releases that region
        \* while the device resource still points at it; regions of earlier calls are never
        \* released while attached, error or not
        (call # None /\ ~AllOk /\ newDma # NoDma /\ newDma.seq = seq)
  /\ dma' = [s \in DOMAIN dma \ {seq} |-> dma[s]]
  /\ U(<<ccfg, call, cmds, txs, newDma, fb, rect, attached, errSeen, devReset, sndUp, params, txOut, nbs, nbq>>)

GpuRet(r) ==
  LET plan == GpuPlan IN
  /\ FollowsPlan(plan)
  /\ CASE call.op = "flush" /\ rect = NoRect -> ErrOf(r) = "NotReady"
       [] call.op = "setup_cursor" /\ call.len # 16384 -> ErrOf(r) = "InvalidParam"
       [] call.op = "get_edid" /\ ~ccfg.edid -> ErrOf(r) = "Unsupported"
       [] OTHER -> IF AllOk /\ Len(cmds) = Len(plan)
                   THEN /\ r.ok
                        /\ call.op = "resolution" => (r.w = ccfg.dw /\ r.h = ccfg.dh)
                        /\ call.op = "setup_framebuffer" => r.n = Pages(ccfg.dwn * ccfg.dhn * 4) * 4096
                        /\ call.op = "change_resolution" => r.n = Pages(call.wn * call.hn * 4) * 4096
                   ELSE ErrOf(r) = "IoError"
  /\ attached' = Apply(attached, cmds)
  /\ errSeen' = (errSeen \/ ~AllOk)
  /\ LET res == call.op \in {"change_resolution", "setup_framebuffer"}
         \* where in the plan the new resolution starts to be attempted
         pre == (IF call.op = "setup_framebuffer" THEN 1 ELSE 0) + (IF fb THEN 3 ELSE 0) IN
     /\ fb' = IF ~res THEN fb
              ELSE IF r.ok THEN TRUE
              ELSE IF fb /\ Len(cmds) < pre + 1 /\ ~(Len(cmds) = pre /\ AllOk) THEN TRUE    \* failed before the old one was given up
              ELSE FALSE
     /\ rect' = IF res /\ (Len(cmds) > pre \/ (Len(cmds) = pre /\ AllOk))
                THEN [w |-> IF call.op = "change_resolution" THEN call.wn ELSE ccfg.dwn,
                      h |-> IF call.op = "change_resolution" THEN call.hn ELSE ccfg.dhn]
                ELSE rect
  /\ U(<<sndUp, params, txOut, nbs, nbq>>)

\* =========================================================================== sound
SOK == 32768
SndOk(c) == c.resp = SOK
Info(c, code, count, size) == c.code = code /\ c.start = 0 /\ c.count = count /\ c.size = size /\ c.rl = <<16>>
\* requests of set_up(): jack info, pcm info, channel-map info; only a failing pcm info aborts
SetUpPrefix ==
  IF sndUp THEN 0
  ELSE IF Len(cmds) >= 2 /\ ~SndOk(cmds[2]) THEN 2 ELSE 3
SetUpOK(k) ==
  /\ Len(cmds) >= k
  /\ k >= 1 => Info(cmds[1], 1, ccfg.jacks, 24)
  /\ k >= 2 => Info(cmds[2], 256, ccfg.streams, 32)
  /\ k >= 3 => Info(cmds[3], 512, ccfg.chmaps, 24)
SetUpFailed == ~sndUp /\ Len(cmds) >= 2 /\ ~SndOk(cmds[2])

StreamCode(opn) == CASE opn = "pcm_prepare" -> 258 [] opn = "pcm_release" -> 259 [] opn = "pcm_start" -> 260 [] opn = "pcm_stop" -> 261 [] OTHER -> -1
TxCap == IF ccfg.ind THEN 32 ELSE 10

RECURSIVE NormR(_)
NormR(sg) == IF Len(sg) <= 1 THEN sg
             ELSE IF sg[2][1] = (sg[1][1] + 7 * (sg[1][2] % 256)) % 256
                  THEN NormR(<<<<sg[1][1], sg[1][2] + sg[2][2]>>>> \o SubSeq(sg, 3, Len(sg)))
                  ELSE <<sg[1]>> \o NormR(Tail(sg))
TxRuns == [i \in 1..Len(txs) |-> <<txs[i].first, txs[i].n>>]

SoundRet(r) ==
  LET k == SetUpPrefix
      rest == SubSeq(cmds, k + 1, Len(cmds)) IN
  /\ SetUpOK(IF SetUpFailed THEN 2 ELSE k)
  /\ IF SetUpFailed
     THEN /\ ErrOf(r) = "IoError" /\ Len(cmds) = 2 /\ txs = <<>> /\ U(<<sndUp, params>>)
     ELSE /\ sndUp' = TRUE
          /\ CASE call.op = "pcm_set_params" ->
                    IF call.pbn = 0 \/ call.pbn > call.bbn \/ call.bbn % call.pbn # 0
                    THEN ErrOf(r) = "InvalidParam" /\ rest = <<>> /\ U(params)
                    ELSE /\ Len(rest) = 1
                         /\ LET c == rest[1] IN
                            /\ c.code = 257 /\ c.stream = call.stream /\ c.buffer_bytes = call.buffer_bytes /\ c.period_bytes = call.period_bytes
                            /\ c.features = 0 /\ c.channels = call.channels /\ c.format = call.format /\ c.rate = call.rate /\ c.pad = 0
                            /\ c.rl = <<24>>
                            /\ IF SndOk(c) THEN r.ok /\ params' = [params EXCEPT ![call.stream] = [setup |-> TRUE, period |-> call.pbn]]
                               ELSE ErrOf(r) = "IoError" /\ U(params)
               [] StreamCode(call.op) # -1 ->
                    /\ Len(rest) = 1 /\ rest[1].code = StreamCode(call.op) /\ rest[1].stream = call.stream /\ rest[1].rl = <<8>>
                    /\ (IF SndOk(rest[1]) THEN r.ok ELSE ErrOf(r) = "IoError") /\ U(params)
               [] call.op = "output_streams" -> rest = <<>> /\ r.ok /\ r.list = <<0>> /\ U(params)
               [] call.op = "pcm_xfer" ->
                    /\ rest = <<>> /\ U(params)
                    /\ IF ~params[call.stream].setup THEN ErrOf(r) = "IoError" /\ txs = <<>>
                       ELSE /\ \A i \in 1..Len(txs) : /\ txs[i].stream = call.stream                 \* tagged with the stream id
                                                       /\ txs[i].n <= params[call.stream].period     \* no larger than a period
                                                       /\ txs[i].n >= 1 /\ txs[i].affine
                                                       /\ txs[i].rl = <<4, txs[i].n>> /\ txs[i].wl = <<8>>
                            /\ IF \A i \in 1..Len(txs) : txs[i].status = SOK
                               THEN \* the caller's frames exactly once, in order
                                    /\ NormR(TxRuns) = NormR(<<<<call.first, call.n>>>>)
                                    /\ r.ok
                               ELSE ErrOf(r) = "IoError"
                            \* a blocking transfer returns - with success or with the error - only
                            \* when the device owns none of its chunks any more (they point at the
                            \* caller's frames and at the function's own status buffers); with a
                            \* device completing out of order this is known finding D11
                            /\ ~ccfg.ooo => txOut = 0
               [] call.op = "pcm_xfer_nb" ->
                    /\ rest = <<>> /\ U(params)
                    /\ IF ~params[call.stream].setup THEN ErrOf(r) = "IoError"
                       ELSE r.ok \/ ErrOf(r) = "QueueFull"
               [] call.op = "pcm_xfer_ok" -> rest = <<>> /\ U(params)
               [] OTHER -> FALSE
  /\ errSeen' = (errSeen \/ \E i \in 1..Len(cmds) : ~SndOk(cmds[i]))
  /\ U(<<fb, rect, attached, txOut, nbs, nbq>>)

\* non-blocking PCM: each submission is one chain [stream id + one period], completions in any
\* order, consumed in used-ring order; a status other than OK is an error
NbRet(r) ==
  IF nbq = <<>> THEN ErrOf(r) = "NotReady" /\ U(<<nbq, nbs>>)
  ELSE IF Head(nbq) # call.tok THEN ErrOf(r) = "WrongToken" /\ U(<<nbq, nbs>>)
  ELSE /\ (IF nbs[call.tok] = SOK THEN r.ok ELSE ErrOf(r) = "IoError")     \* every status is checked
       /\ nbq' = Tail(nbq)
       /\ nbs' = [t \in DOMAIN nbs \ {call.tok} |-> nbs[t]]

Ret(r) ==
  /\ call # None
  /\ CASE ccfg.kind = "rng" -> RngRet(r) /\ U(<<fb, rect, attached, errSeen, sndUp, params, txOut, nbs, nbq>>)
       [] ccfg.kind = "9p"  -> P9Ret(r) /\ U(<<fb, rect, attached, errSeen, sndUp, params, txOut, nbs, nbq>>)
       [] ccfg.kind = "rtc" -> RtcRet(r) /\ U(<<fb, rect, attached, errSeen, sndUp, params, txOut, nbs, nbq>>)
       [] ccfg.kind = "gpu" -> GpuRet(r)
       [] ccfg.kind = "sound" ->
            IF call.op = "pcm_xfer_ok" THEN cmds = <<>> /\ NbRet(r) /\ U(<<fb, rect, attached, errSeen, sndUp, params, txOut>>)
            ELSE SoundRet(r)
       [] OTHER -> FALSE
  /\ call' = None /\ cmds' = <<>>
  /\ txs' = IF ccfg.kind = "sound" /\ call.op \in {"pcm_xfer_nb", "pcm_xfer_ok"} THEN txs ELSE <<>>
  /\ U(<<ccfg, newDma, dma, devReset>>)

\* sound transmit queue occupancy never exceeds its capacity
TxAdd == txOut' = txOut + 1 /\ U(<<ccfg, call, cmds, txs, newDma, fb, rect, attached, dma, errSeen, devReset, sndUp, params, nbs, nbq>>)
TxPop == txOut' = txOut - 1 /\ U(<<ccfg, call, cmds, txs, newDma, fb, rect, attached, dma, errSeen, devReset, sndUp, params, nbs, nbq>>)
WithinCapacity == txOut <= TxCap
=============================================================================
