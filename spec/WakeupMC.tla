------------------------------ MODULE WakeupMC ------------------------------
(***************************************************************************)
(* C05, last sentence: "blocking request helpers return as soon as the     *)
(* device has served the request and never wait on a device that was not   *)
(* told about it" - as a liveness property.                                *)
(*                                                                         *)
(* A driver submits batches of 1..N entries, evaluates should_notify as    *)
(* coded in src/queue.rs (event-index negotiated), notifies if it says so  *)
(* and then waits for all its entries to complete.  The device follows the *)
(* standard and serves ONLY when notified (the least helpful servicing     *)
(* policy): it then takes everything available, completes it, sets         *)
(* avail_event to the next entry it expects and re-checks before sleeping.  Indices are free-running     *)
(* modulo IdxMod, so the model runs through the wrap for ever.             *)
(* Coded = "fixed": the comparison after the fix of D1; "naive": before;   *)
(* "last_only": a comparison that is right only for batches of one.        *)
(***************************************************************************)
EXTENDS Naturals

CONSTANTS IdxMod, N, Coded

VARIABLES avail,     \* driver's available index
          event,     \* avail_event as last written by the device
          devNext,   \* the device has taken (and completed) everything below this index
          kicked,    \* a notification is on its way to the device
          batch,     \* entries added since the last should_notify
          pc,        \* "idle" | "wait"
          dev        \* device: "sleep" | "take" | "event" | "recheck"
vars == <<avail, event, devNext, kicked, batch, pc, dev>>

Inc(a)    == (a + 1) % IdxMod
Sub(a, b) == (a + IdxMod - b) % IdxMod

ShouldNotify ==
  IF Coded = "naive" THEN avail >= Inc(event)
  ELSE IF Coded = "last_only" THEN Inc(event) = avail     \* assumes one submission per check
  ELSE Sub(avail, Inc(event)) < IdxMod \div 2

Init == avail = 0 /\ event = 0 /\ devNext = 0 /\ kicked = FALSE /\ batch = 0 /\ pc = "idle" /\ dev = "sleep"

Add == /\ pc = "idle" /\ batch < N /\ Sub(avail, devNext) < N
       /\ avail' = Inc(avail) /\ batch' = batch + 1
       /\ UNCHANGED <<event, devNext, kicked, pc, dev>>
Check == /\ pc = "idle" /\ batch >= 1
         /\ kicked' = (kicked \/ ShouldNotify)
         /\ batch' = 0 /\ pc' = "wait"
         /\ UNCHANGED <<avail, event, devNext, dev>>
Done == /\ pc = "wait" /\ devNext = avail
        /\ pc' = "idle"
        /\ UNCHANGED <<avail, event, devNext, kicked, batch, dev>>
Driver == Add \/ Check \/ Done

\* serve-on-notify device, step by step as the standard prescribes (2.7.7.2 / 2.7.10): woken by a
\* notification it takes what is available, writes avail_event = the next entry it expects, and
\* looks at the available index once more before going back to sleep; the driver may add entries
\* and evaluate should_notify between any two of these steps
Device ==
  \/ /\ dev = "sleep" /\ kicked /\ kicked' = FALSE /\ dev' = "take"
     /\ UNCHANGED <<avail, event, devNext, batch, pc>>
  \/ /\ dev = "take" /\ devNext' = avail /\ dev' = "event"
     /\ UNCHANGED <<avail, event, kicked, batch, pc>>
  \/ /\ dev = "event" /\ event' = devNext /\ dev' = "recheck"
     /\ UNCHANGED <<avail, devNext, kicked, batch, pc>>
  \/ /\ dev = "recheck" /\ dev' = (IF avail # devNext THEN "take" ELSE "sleep")
     /\ UNCHANGED <<avail, event, devNext, kicked, batch, pc>>

Next == Driver \/ Device
Spec == Init /\ [][Next]_vars /\ WF_vars(Driver) /\ WF_vars(Device)

TypeOK == avail \in 0..IdxMod-1 /\ event \in 0..IdxMod-1 /\ devNext \in 0..IdxMod-1 /\ batch \in 0..N
\* no lost wake-up: a waiting driver is eventually served
NoLostWakeup == (pc = "wait") ~> (pc = "idle")
=============================================================================
