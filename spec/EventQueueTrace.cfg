SPECIFICATION TraceSpec
INVARIANTS Stocked
POSTCONDITION TraceAccepted
CHECK_DEADLOCK FALSE
