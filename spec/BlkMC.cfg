SPECIFICATION MCSpec
CONSTANTS
 MaxOut = 3
 Ind = TRUE
 Flush = TRUE
INVARIANTS UsedAreOutstanding NoDuplicateCompletion CanReturn
CHECK_DEADLOCK FALSE
