------------------------------- MODULE Console -------------------------------
(***************************************************************************)
(* C15: console byte streams.                                              *)
(*                                                                         *)
(* The device's receive stream is identified by position: byte p of the    *)
(* stream has value B(p).  `written` bytes exist so far; the API has       *)
(* consumed `consumed` of them.  The driver holds at most one chunk        *)
(* [start, start+len) with a cursor; at most one receive buffer is posted; *)
(* it is re-posted only once the chunk is fully consumed.  Every value an  *)
(* API call returns is determined by these variables - so nothing can be   *)
(* lost, duplicated or reordered.                                          *)
(***************************************************************************)
EXTENDS Integers, Sequences, TLC

CAP == 4096
B(p) == (p * 7 + 3) % 256

VARIABLES written,   \* bytes the device has written to the receive queue so far
          consumed,  \* bytes handed out (with consumption) by the API so far
          chunk,     \* [start, len, cursor] the data the driver currently holds
          posted,    \* a receive buffer is outstanding
          filled,    \* [start, len] written by the device into the posted buffer, not yet picked up; len 0 = none
          irq,       \* queue interrupt pending
          call,      \* the public call in progress
          picked     \* the call in progress picked up a filled buffer
cvars == <<written, consumed, chunk, posted, filled, irq, call, picked>>
None == [op |-> "none"]
NoFill == [start |-> 0, len |-> 0]

CInit == written = 0 /\ consumed = 0 /\ chunk = [start |-> 0, len |-> 0, cursor |-> 0]
         /\ posted = FALSE /\ filled = NoFill /\ irq = FALSE /\ call = None /\ picked = FALSE
CReset == written' = 0 /\ consumed' = 0 /\ chunk' = [start |-> 0, len |-> 0, cursor |-> 0]
          /\ posted' = FALSE /\ filled' = NoFill /\ irq' = FALSE /\ call' = None /\ picked' = FALSE

Avail == chunk.len - chunk.cursor

\* ---- device
DevFill(start, k) ==
  /\ posted /\ filled = NoFill
  /\ 1 <= k /\ k <= CAP
  /\ start = written
  /\ written' = written + k /\ filled' = [start |-> start, len |-> k] /\ irq' = TRUE
  /\ UNCHANGED <<consumed, chunk, posted, call, picked>>

\* ---- queue operations of the receive queue, as the driver performs them
\* at most one buffer outstanding; re-posted only after everything received was consumed
\* (recv(pop) consumes its byte and re-posts in one call)
Post ==
  /\ ~posted
  /\ \/ Avail = 0
     \/ call.op = "recv_pop" /\ Avail = 1
  /\ posted' = TRUE
  /\ UNCHANGED <<written, consumed, chunk, filled, irq, call, picked>>
\* the driver picks up what the device wrote: exactly that many bytes, and only when the
\* previous chunk is exhausted (otherwise unread bytes would be lost)
Pickup(len) ==
  /\ posted /\ filled # NoFill /\ len = filled.len
  /\ Avail = 0
  /\ chunk' = [start |-> filled.start, len |-> filled.len, cursor |-> 0]
  /\ posted' = FALSE /\ filled' = NoFill /\ picked' = TRUE
  /\ UNCHANGED <<written, consumed, irq, call>>

\* ---- public calls
Call(c) == call = None /\ call' = c /\ picked' = FALSE /\ UNCHANGED <<written, consumed, chunk, posted, filled, irq>>

Consume(k) == chunk' = [chunk EXCEPT !.cursor = @ + k] /\ consumed' = consumed + k

\* bytes returned: n bytes, the first is `first`, `affine` says they are consecutive stream bytes
Correct(first, n, affine) == n >= 1 => (first = B(chunk.start + chunk.cursor) /\ affine /\ chunk.start + chunk.cursor = consumed)

Ret(r) ==
  /\ call # None
  /\ CASE call.op = "recv_peek" ->
            /\ IF Avail = 0 THEN r.v = -1 ELSE r.v = B(chunk.start + chunk.cursor)
            /\ UNCHANGED <<chunk, consumed, irq>>
       [] call.op = "recv_pop" ->
            /\ IF Avail = 0 THEN r.v = -1 /\ UNCHANGED <<chunk, consumed>>
               ELSE r.v = B(chunk.start + chunk.cursor) /\ chunk.start + chunk.cursor = consumed /\ Consume(1)
            /\ UNCHANGED irq
       [] call.op = "read" ->
            \* blocks until at least one byte; returns min(n, available) bytes from the cursor
            /\ IF call.n = 0 THEN r.n = 0 /\ UNCHANGED <<chunk, consumed>>
               ELSE /\ Avail >= 1 /\ r.n = (IF call.n < Avail THEN call.n ELSE Avail)
                    /\ Correct(r.first, r.n, r.affine) /\ Consume(r.n)
            /\ UNCHANGED irq
       [] call.op = "fill_buf" ->
            /\ Avail >= 1 /\ r.n = Avail /\ Correct(r.first, r.n, r.affine)
            /\ UNCHANGED <<chunk, consumed, irq>>
       [] call.op = "consume" -> call.k <= Avail /\ Consume(call.k) /\ UNCHANGED irq
       [] call.op = "read_ready" -> r.b = (Avail > 0) /\ UNCHANGED <<chunk, consumed, irq>>
       [] call.op = "ack_interrupt" ->
            \* looks at the queue only if the device interrupted; reports whether data arrived
            /\ r.b = picked /\ (picked => irq)
            /\ irq' = FALSE /\ UNCHANGED <<chunk, consumed>>
       [] call.op = "send" -> call.sent = TRUE /\ UNCHANGED <<chunk, consumed, irq>>
       \* embedded-io Write::write: reports how many bytes of the buffer it placed (at least one of
       \* a non-empty buffer) - exactly those were handed to the device, see DevTxW
       [] call.op = "write" -> /\ r.n = call.done /\ (call.len > 0 => r.n >= 1)
                               /\ UNCHANGED <<chunk, consumed, irq>>
       \* core::fmt::Write (write_str, write_char, write_fmt): by the time it returns, the chains
       \* handed to the device carried exactly the UTF-8 text, see DevTxF
       [] call.op = "fmt" -> r.ok /\ call.done = Len(call.bytes) /\ UNCHANGED <<chunk, consumed, irq>>
       [] OTHER -> FALSE
  /\ call' = None
  /\ UNCHANGED <<written, posted, filled, picked>>

\* the transmit queue: one chain per send, exactly the caller's bytes, device-readable only
DevTx(dg, len, rl, wl) ==
  /\ call.op = "send" /\ ~call.sent
  /\ dg = call.dg /\ len = call.len /\ rl = <<call.len>> /\ wl = <<>>
  /\ call' = [call EXCEPT !.sent = TRUE]
  /\ UNCHANGED <<written, consumed, chunk, posted, filled, irq, picked>>

\* Write::write: one or more chains, each device-readable only, carrying the next bytes of the
\* caller's buffer (the buffer is position-coded like the input stream, starting at call.start)
DevTxW(first, len, affine, rl, wl) ==
  /\ call.op = "write"
  /\ len >= 1 /\ call.done + len <= call.len
  /\ first = B(call.start + call.done) /\ affine
  /\ rl = <<len>> /\ wl = <<>>
  /\ call' = [call EXCEPT !.done = @ + len]
  /\ UNCHANGED <<written, consumed, chunk, posted, filled, irq, picked>>

\* fmt::Write: one or more chains, each device-readable only, carrying the next bytes of the text
DevTxF(bytes, rl, wl) ==
  /\ call.op = "fmt"
  /\ Len(bytes) >= 1 /\ call.done + Len(bytes) <= Len(call.bytes)
  /\ bytes = SubSeq(call.bytes, call.done + 1, call.done + Len(bytes))
  /\ rl = <<Len(bytes)>> /\ wl = <<>>
  /\ call' = [call EXCEPT !.done = @ + Len(bytes)]
  /\ UNCHANGED <<written, consumed, chunk, posted, filled, irq, picked>>

\* invariants: nothing lost, duplicated or reordered
NothingLost == consumed = chunk.start + chunk.cursor \/ (chunk.len = 0 /\ consumed = 0)
StreamAccounted == written = chunk.start + chunk.len + filled.len \/ (chunk.len = 0 /\ written = filled.len)
=============================================================================
