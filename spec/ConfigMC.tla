------------------------------ MODULE ConfigMC ------------------------------
(* Transport::read_consistent as coded (generation before, fields, generation after, retry),
   against a device that may update between any two accesses; NFields fields, at most MaxUpd
   updates.  Bug = "single_pass" drops the second generation read (must yield a torn value). *)
EXTENDS Config
CONSTANTS NFields, MaxUpd, Bug
VARIABLES pc, before, got, upd
mvars == <<cvars, pc, before, got, upd>>

MCInit == CInit(0, 0) /\ pc = "idle" /\ before = 0 /\ got = <<>> /\ upd = 0

Reader ==
  \/ pc = "idle" /\ CallBegin /\ pc' = "gen1" /\ UNCHANGED <<before, got, upd>>
  \/ pc = "gen1" /\ GenRead(gen) /\ before' = gen /\ got' = <<>> /\ pc' = "fields" /\ UNCHANGED upd
  \/ /\ pc = "fields" /\ FieldRead /\ got' = Append(got, snap)
     /\ pc' = IF Len(got) + 1 = NFields THEN (IF Bug = "single_pass" THEN "ret" ELSE "gen2") ELSE "fields"
     /\ UNCHANGED <<before, upd>>
  \/ pc = "gen2" /\ GenRead(gen) /\ pc' = (IF gen = before THEN "ret" ELSE "gen1") /\ UNCHANGED <<before, got, upd>>
  \/ pc = "ret" /\ CallEnd(got) /\ pc' = "done" /\ UNCHANGED <<before, got, upd>>

Device == /\ upd < MaxUpd /\ pc # "done"
          /\ DevUpdate(gen + 1, snap + 1) /\ upd' = upd + 1 /\ UNCHANGED <<pc, before, got>>

MCNext == Reader \/ Device
MCSpec == MCInit /\ [][MCNext]_mvars /\ WF_mvars(Reader)
NeverBlocked == pc \in {"ret"} => ENABLED Reader
\* once the device stops updating, the read terminates
Terminates == <>(pc = "done")
=============================================================================
