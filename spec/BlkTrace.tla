------------------------------ MODULE BlkTrace ------------------------------
EXTENDS Blk, Json, IOUtils
Rec == ndJsonDeserialize(IOEnv.TRACE)
VARIABLE l
tvars == <<bvars, l>>
Ev == Rec[l]
Is(name) == l <= Len(Rec) /\ Rec[l].e = name /\ l' = l + 1
TraceInit == l = 1 /\ BInit([cap |-> "0x0", ro |-> FALSE, flush |-> FALSE, ind |-> FALSE])
TReset == Is("BlkReset") /\ BReset([cap |-> Ev.cap, ro |-> Ev.ro, flush |-> Ev.flush, ind |-> Ev.ind])
TInfo  == Is("Info") /\ Info(Ev.capacity, Ev.readonly)
TCall  == Is("Call") /\ Call(Ev)
TReq   == Is("DevReq") /\ DevReq(Ev.tok, Ev)
TResp  == Is("DevResp") /\ DevResp(Ev.tok, Ev.status, Ev.dg, IF "id" \in DOMAIN Ev THEN Ev.id ELSE <<>>)
TDone  == Is("DevDone") /\ DevDone(Ev.tok)
TRet   == Is("Ret") /\ Ret(Ev)
TPeek  == Is("Peek") /\ Peek(Ev.r)
TDrop  == Is("Drop") /\ cur = None /\ UNCHANGED bvars
TraceNext == TReset \/ TInfo \/ TCall \/ TReq \/ TResp \/ TDone \/ TRet \/ TPeek \/ TDrop
TraceSpec == TraceInit /\ [][TraceNext]_tvars
TraceAccepted ==
  LET d == TLCGet("stats").diameter IN
  IF d - 1 = Len(Rec) THEN TRUE
  ELSE /\ PrintT(<<"TRACE_REJECTED_AT", d, Rec[d]>>)
       /\ FALSE
=============================================================================
