SPECIFICATION MCSpec
CONSTANTS
  NQ = 2
  Legacy = FALSE
  Bug = "early_ok"
INVARIANTS DriverNeverBlocked NoLiveWithoutInit AcceptedOK Negotiated
CHECK_DEADLOCK FALSE
