#!/usr/bin/env python3
"""Rewrite the seeded-changes table of DESIGN.md from seeded/*/meta.json."""
import glob, json, os, re
ROOT = os.path.dirname(os.path.dirname(os.path.abspath(__file__)))
rows = ["| seed | what it needs to manifest | caught by |", "|---|---|---|"]
for f in sorted(glob.glob(os.path.join(ROOT, "seeded", "*", "meta.json"))):
    d = json.load(open(f))
    esc = lambda t: str(t).replace("|", "\\|").replace("\n", " ")
    rows.append(f"| `{os.path.basename(os.path.dirname(f))}` | {esc(d.get('needs', ''))} | {esc(d.get('caught_by', ''))} |")
block = "<!-- SEEDTABLE-BEGIN -->\n" + "\n".join(rows) + "\n<!-- SEEDTABLE-END -->"
p = os.path.join(ROOT, "DESIGN.md")
s = open(p).read()
if "SEEDTABLE-BEGIN" in s:
    s = re.sub(r"<!-- SEEDTABLE-BEGIN -->.*?<!-- SEEDTABLE-END -->", lambda m: block, s, flags=re.S)
else:
    s = s.replace("SEEDTABLE", block, 1)
open(p, "w").write(s)
print(len(rows) - 2, "seeds")
