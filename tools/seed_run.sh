#!/bin/bash
# usage: seed_run.sh <patch.diff> <check args...>   e.g. seed_run.sh seeded/x/patch.diff C01 quick
# Applies the patch to /repo, runs the check, always reverts.
P="$(realpath "$1")"; shift
git -C /repo diff --quiet || { echo "/repo dirty"; exit 2; }
git -C /repo apply "$P" || exit 2
cd /verif && ./check "$@"; rc=$?
git -C /repo checkout -- . ; git -C /repo clean -fdq
echo "check exit: $rc"
exit $rc
