#!/bin/bash
# usage: seed_run2.sh <patch.diff> <Cxx> <tier>
# Like seed_run.sh, but leaves /repo alone: the check runs against a scratch worktree of /repo with
# the patch applied, through a scratch copy of the harness (own target dir, work dir, evidence dir).
# For use while /repo is busy (a long run of the registered checks).
P="$(realpath "$1")"; shift
S=/tmp/vsr; R=$S/repo; H=$S/harness
mkdir -p $S
if [ ! -d $R ]; then git -C /repo worktree add -q --detach $R HEAD || exit 2; fi
git -C $R checkout -q --detach "${SEED_BASE:-$(git -C /repo rev-parse HEAD)}" && git -C $R checkout -q -- . && git -C $R clean -fdq
git -C $R apply "$P" || exit 2
mkdir -p $H; rsync -a --delete --exclude target /verif/harness/ $H/
sed -i "s|path = \"/repo\"|path = \"$R\"|" $H/Cargo.toml
cd /verif && VERIF_HARNESS=$H VERIF_WORK=$S/work VERIF_EVIDENCE=$S/evidence VH_REPO_PREFIX=$R/ ./check "$@"; rc=$?
git -C $R checkout -q -- . ; git -C $R clean -fdq
echo "check exit: $rc"
exit $rc
