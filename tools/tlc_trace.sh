#!/bin/sh
# usage: tlc_trace.sh <spec-dir> <TraceModule> <cfg> <trace.ndjson> <metadir> [Xmx]
# Runs TLC trace validation on one NDJSON file (single worker, depth-first queue).
SPEC="$1"; MOD="$2"; CFG="$3"; TRACE_FILE="$4"; META="$5"; XMX="${6:-3g}"
cd "$SPEC" || exit 2
TRACE="$TRACE_FILE" JAVA_TOOL_OPTIONS="-Xss1g -Dtlc2.tool.queue.IStateQueue=StateDeque" \
  exec java -XX:+UseParallelGC -Xmx$XMX -cp /opt/veriftools/tla/tla2tools.jar:/opt/veriftools/tla/CommunityModules-deps.jar \
  tlc2.TLC -workers 1 -metadir "$META" -cleanup -noGenerateSpecTE -config "$CFG" "$MOD.tla"
