#!/usr/bin/env python3
"""./check <Cxx> quick|thorough   |   ./check --replay <file>

Each property check = TLC model checking of the property's specification (+ negative
configurations as vacuity guards) and trace validation / behaviour replay of the real crate built
from /repo's current working tree.  Exit 0: held on everything explored; 1: VIOLATION line(s);
2: tool error."""
import json, os, sys, time, traceback
sys.path.insert(0, os.path.dirname(os.path.abspath(__file__)))
from vlib import *

MCW = 8          # TLC workers for model checking (leave cores for cargo / other checks)


def vq_family(c, tier, seed, modes, profile="dev"):
    """Run the direct-VirtQueue scenario family and validate every trace against VirtQueue.tla."""
    for mode in modes:
        out = os.path.join(WORK, c.pid, f"vq-{mode}.ndjson")
        idx = run_harness("vq", out, seed, tier, [mode], profile=profile)
        if mode == "wrap":
            v = validate_traces("VirtQueueTrace", "VirtQueueTrace.cfg", out, idx, max_events=10**9, parallel=6, xmx="6g", timeout=3000)
        else:
            v = validate_traces("VirtQueueTrace", "VirtQueueTrace.cfg", out, idx)
        c.add_validation(v, f"vq/{mode}")
        c.samples.append({"family": f"vq/{mode}", "scenario": idx["scenarios"][0], "summary": idx["summaries"][0]})
        for s in idx["summaries"]:
            if isinstance(s, dict) and "error" in s:
                raise ToolError(f"scenario could not start: {s}")
        if not c.violations:
            os.remove(out)


def mc(c, cfgs, tier, module="VirtQueueMC", negative=(), timeout=1500):
    for cfg in cfgs:
        c.add_mc(run_tlc_mc(module, cfg + ".cfg", workers=MCW, timeout=timeout))
    for cfg in negative:
        c.add_mc(run_tlc_mc(module, cfg + ".cfg", workers=MCW, timeout=timeout), expect_violation=True)


VQ_ASSUME = [
    "single-threaded co-simulation: the device observes queue memory at every hook point (after each device-visible store, the fence) and between calls; hardware memory ordering is not modelled",
    "the reference device (harness/src/core.rs) follows Virtio 1.2 2.7; LedgerHal bounces every buffer to a fresh device address",
    "model checking is exhaustive for the stated small constants only (queue size 2/4, index modulus 4/8)",
]


def c01(tier, seed):
    c = Check("C01", tier, seed)
    c.rule = "MC: complete reachable state space of the queue.rs transcription for N=2 (direct/indirect, event-idx on/off); traces: one scenario per (queue size, indirect, event_idx, access_platform) with random submissions/completions in any order; a scenario is non-trivial if it contains accepted submissions and completions"
    c.assumptions = VQ_ASSUME
    mc(c, ["VQ_n2_direct", "VQ_n2_indirect"] + (["VQ_n2_direct_ev", "VQ_n2_indirect_ev"] if tier == "thorough" else []), tier,
       negative=["VQ_bug_no_last_fix"])
    vq_family(c, tier, seed, ["random"])
    return c.finish()


def c02(tier, seed):
    c = Check("C02", tier, seed)
    c.rule = "MC: every interleaving of device reads with the individual stores of add/pop (store-granular model), N=2; negative configuration (index store before ring-slot store) must yield a counterexample; traces: every store of every add/pop observed at the hook and matched against the guarded PublishIdx action"
    c.assumptions = VQ_ASSUME + ["program order of stores only; the effect of fence/Release on weakly ordered hardware is not observable"]
    mc(c, ["VQ_n2_direct_ev", "VQ_n2_indirect_ev"] + (["VQ_n2_direct", "VQ_n2_indirect"] if tier == "thorough" else []), tier,
       negative=["VQ_bug_idx_before_slot"])
    vq_family(c, tier, seed + 101, ["random"])
    return c.finish()


def c03(tier, seed):
    c = Check("C03", tier, seed)
    c.rule = "MC: all completion permutations and polls with right/wrong tokens, indices modulo 4/8 wrap many times; traces: random interleavings plus wrap runs (>65536 submissions on one queue so the real 16-bit indices wrap)"
    c.assumptions = VQ_ASSUME
    mc(c, ["VQ_n2_direct", "VQ_n2_indirect_ev"], tier)
    vq_family(c, tier, seed + 202, ["random", "wrap"])
    return c.finish()


def c04(tier, seed):
    c = Check("C04", tier, seed)
    c.rule = "every Hal::share/unshare of every scenario is an event matched against the ledger guards (fresh address, true range, role direction, access_platform, exactly once); output-buffer digests before/after each pop"
    c.assumptions = VQ_ASSUME
    mc(c, ["VQ_n2_indirect", "VQ_n2_direct_ev"], tier)
    vq_family(c, tier, seed + 303, ["random"])
    return c.finish()


def c05(tier, seed):
    c = Check("C05", tier, seed)
    c.rule = "MC: should_notify as coded vs vring_need_event for every (avail_idx, avail_event, last-checked) modulo 8, both flag values; negative configuration (non-wrap-aware compare) must yield a counterexample; traces: should_notify / set_dev_notify / used_event observed in random histories"
    c.assumptions = VQ_ASSUME
    mc(c, ["VQ_n2_notify_flag", "VQ_n2_notify_ev"], tier, negative=["VQ_bug_naive_event_compare", "VQ_bug_no_rearm"])
    vq_family(c, tier, seed + 404, ["notify", "random"])
    return c.finish()


PROPS = {"C01": c01, "C02": c02, "C03": c03, "C04": c04, "C05": c05}


def main():
    if len(sys.argv) >= 3 and sys.argv[1] == "--replay":
        return replay(sys.argv[2])
    if len(sys.argv) < 3 or sys.argv[1] not in PROPS:
        print(__doc__)
        return 2
    pid, tier = sys.argv[1], sys.argv[2]
    tier = os.environ.get("VERIF_TIER", tier)
    seed = int(os.environ.get("VERIF_SEED", "1"))
    try:
        return PROPS[pid](tier, seed)
    except ToolError as e:
        log(f"TOOL-ERROR {pid}: {e}")
        return 2
    except Exception:
        traceback.print_exc()
        return 2


def replay(path):
    v = json.load(open(path))
    log(json.dumps(v, indent=1)[:3000])
    fam = (v.get("family") or "").split("/")[0]
    if v.get("kind") != "trace" or not v.get("params"):
        log("model-level counterexample: re-run the configuration named above with tlc to see the behaviour")
        return 0
    tmp = os.path.join(WORK, "replay")
    os.makedirs(tmp, exist_ok=True)
    rp = os.path.join(tmp, "one.json")
    json.dump({"params": v["params"]}, open(rp, "w"))
    out = os.path.join(tmp, "trace.ndjson")
    idx = run_harness(fam, out, 0, "quick", replay=rp)
    log(f"trace of the scenario: {out}")
    return 0


if __name__ == "__main__":
    sys.exit(main())
