#!/usr/bin/env python3
"""./check <Cxx> quick|thorough   |   ./check --replay <file>

Each property check = TLC model checking of the property's specification (+ negative
configurations as vacuity guards) and trace validation / behaviour replay of the real crate built
from /repo's current working tree.  Exit 0: held on everything explored; 1: VIOLATION line(s);
2: tool error."""
import json, os, sys, time, traceback
sys.path.insert(0, os.path.dirname(os.path.abspath(__file__)))
from vlib import *
from vlib import run_apalache, HarnessCrash

MCW = 8          # TLC workers for model checking (leave cores for cargo / other checks)


def vq_family(c, tier, seed, modes, profile="dev"):
    """Run the direct-VirtQueue scenario family and validate every trace against VirtQueue.tla."""
    for mode in modes:
        out = os.path.join(WORK, c.pid, f"vq-{mode}.ndjson")
        idx = run_harness("vq", out, seed, tier, [mode], profile=profile)
        if mode == "wrap":
            # one shard per (long) scenario, validated side by side
            v = validate_traces("VirtQueueTrace", "VirtQueueTrace.cfg", out, idx, max_events=1, parallel=6, xmx="6g", timeout=3000)
        else:
            v = validate_traces("VirtQueueTrace", "VirtQueueTrace.cfg", out, idx)
        c.add_validation(v, f"vq/{mode}")
        c.samples.append({"family": f"vq/{mode}", "scenario": idx["scenarios"][0], "summary": idx["summaries"][0]})
        for s in idx["summaries"]:
            if isinstance(s, dict) and "error" in s:
                raise ToolError(f"scenario could not start: {s}")
        if not c.violations:
            os.remove(out)


def mc(c, cfgs, tier, module="VirtQueueMC", negative=(), timeout=1500):
    for cfg in cfgs:
        c.add_mc(run_tlc_mc(module, cfg + ".cfg", workers=MCW, timeout=timeout))
    for cfg in negative:
        c.add_mc(run_tlc_mc(module, cfg + ".cfg", workers=MCW, timeout=timeout), expect_violation=True)


VQ_ASSUME = [
    "single-threaded co-simulation: the device observes queue memory at every hook point (after each device-visible store, the fence) and between calls; hardware memory ordering is not modelled",
    "the reference device (harness/src/core.rs) follows Virtio 1.2 2.7; LedgerHal bounces every buffer to a fresh device address",
    "model checking is exhaustive for the stated small constants only (queue size 2/4, index modulus 4/8)",
]


def c01(tier, seed):
    c = Check("C01", tier, seed)
    c.rule = "MC: complete reachable state space of the queue.rs transcription for N=2 (direct/indirect, event-idx on/off); traces: one scenario per (queue size, indirect, event_idx, access_platform) with random submissions/completions in any order; a scenario is non-trivial if it contains accepted submissions and completions; every queue of every driver in the usage scenarios of the device families, configured by the negotiated features"
    c.assumptions = VQ_ASSUME
    mc(c, ["VQ_n2_direct", "VQ_n2_indirect"] + (["VQ_n2_direct_ev", "VQ_n2_indirect_ev"] if tier == "thorough" else []), tier,
       negative=["VQ_bug_no_last_fix"])
    vq_family(c, tier, seed, ["random"])
    # "indirect tables ... used only when enabled for the queue": each driver's queues with the
    # negotiated bits as the queue's configuration (every transport, none / one / both of
    # INDIRECT_DESC and EVENT_IDX offered)
    usage_queues(c, tier, seed)
    return c.finish()


def c02(tier, seed):
    c = Check("C02", tier, seed)
    c.rule = "MC: every interleaving of device reads with the individual stores of add/pop (store-granular model), N=2; negative configuration (index store before ring-slot store) must yield a counterexample; traces: every store of every add/pop observed at the hook and matched against the guarded PublishIdx action"
    c.assumptions = VQ_ASSUME + ["program order of stores only; the effect of fence/Release on weakly ordered hardware is not observable"]
    mc(c, ["VQ_n2_direct_ev", "VQ_n2_indirect_ev"] + (["VQ_n2_direct", "VQ_n2_indirect"] if tier == "thorough" else []), tier,
       negative=["VQ_bug_idx_before_slot"])
    vq_family(c, tier, seed + 101, ["random"])
    # the same store discipline for every queue of every driver (usage scenarios)
    usage_queues(c, tier, seed)
    return c.finish()


def c03(tier, seed):
    c = Check("C03", tier, seed)
    c.rule = "MC: all completion permutations and polls with right/wrong tokens, indices modulo 4/8 wrap many times; traces: random interleavings plus wrap runs (>65536 submissions on one queue so the real 16-bit indices wrap); every driver's completion polls in the usage scenarios of the device families"
    c.assumptions = VQ_ASSUME
    mc(c, ["VQ_n2_direct", "VQ_n2_indirect_ev"], tier)
    vq_family(c, tier, seed + 202, ["random", "wrap"])
    # "a poll that finds nothing ready or a non-matching token changes nothing" also holds one level
    # up: the drivers' completion polls (block, sound non-blocking transfers, network, owned queues)
    # in the usage scenarios, device level and queue level
    usage_queues(c, tier, seed, device_level=True)
    return c.finish()


def c04(tier, seed):
    c = Check("C04", tier, seed)
    c.rule = "every Hal::share/unshare of every scenario is an event matched against the ledger guards (fresh address, true range, role direction, access_platform, exactly once); output-buffer digests before/after each pop; the same for every queue of every driver in the usage scenarios of the device families (all transports, bouncing and in-place platform); the public VirtQueue API against the misbehaving reference device with a peek-driven caller that keeps one buffer set per token (repeated / invented / dropped completions must not unshare anything again)"
    c.assumptions = VQ_ASSUME
    mc(c, ["VQ_n2_indirect", "VQ_n2_direct_ev"], tier)
    vq_family(c, tier, seed + 303, ["random"])
    # "exactly once" also when the device repeats, invents or drops completions (the misbehaving
    # reference device of C07 at the queue API)
    vq_family(c, tier, seed + 304, ["adversary"])
    # the ledger is the platform's: the drivers' own submissions and completions count as well,
    # and so do the addresses drivers put *inside* requests (GPU backing memory): device level
    usage_queues(c, tier, seed, device_level=True)
    return c.finish()


def c05(tier, seed):
    c = Check("C05", tier, seed)
    c.rule = "MC: should_notify as coded vs vring_need_event for every (avail_idx, avail_event, last-checked) modulo 8, both flag values; negative configuration (non-wrap-aware compare) must yield a counterexample; liveness (WakeupMC): a notify-only standard-following device always serves a driver that follows the coded predicate, batches 1..N, indices wrapping (two negative predicates lose a wake-up); Apalache (SMT): the same implication for all 16-bit index triples with batches <= 32768 (NotifyLemma.tla), the pre-fix comparison refuted; traces: should_notify / set_dev_notify / used_event observed in random histories; every driver's queues under the three device servicing policies (notification obligations after each internal should_notify; endless waits)"
    c.assumptions = VQ_ASSUME
    if tier == "thorough":
        mc(c, ["VQ_n2_notify_flag", "VQ_n2_notify_ev4", "VQ_n2_notify_ev"], tier, negative=["VQ_bug_naive_event_compare", "VQ_bug_no_rearm"])
    else:
        mc(c, ["VQ_n2_notify_flag", "VQ_n2_notify_ev4"], tier, negative=["VQ_bug_naive_event_compare4", "VQ_bug_no_rearm"])
    # liveness: a driver that notifies exactly when the coded predicate says so is always served by
    # a standard-following device that works only when notified (the device's own steps - take,
    # write avail_event, re-check - interleaved with submissions in every way, indices wrapping)
    c.add_mc(run_tlc_mc("WakeupMC", "Wakeup_fixed.cfg", workers=2, timeout=300))
    c.add_mc(run_tlc_mc("WakeupMC", "Wakeup_fixed_n4.cfg", workers=2, timeout=300))
    c.add_mc(run_tlc_mc("WakeupMC", "Wakeup_bug_naive.cfg", workers=2, timeout=300), expect_violation=True)
    c.add_mc(run_tlc_mc("WakeupMC", "Wakeup_bug_last_only.cfg", workers=2, timeout=300), expect_violation=True)
    # the same implication for the real 16-bit index width, symbolically (Apalache / SMT):
    # for all old, new, event in 0..65535 with at most 32768 submissions between two checks
    c.add_mc(run_apalache("NotifyLemma", "Lemma"))
    c.add_mc(run_apalache("NotifyLemma", "LemmaBefore"), expect_violation=True)
    vq_family(c, tier, seed + 404, ["notify", "random"])
    # "blocking request helpers ... never wait on a device that was not told about it": every
    # driver under the three servicing policies (serve on notify only / poll / serve late, 1..40
    # spins); a should_notify verdict of "must" has to be followed by the notification, and a
    # driver left spinning on a device that has nothing to do is a Stuck event (no action)
    usage_queues(c, tier, seed)
    return c.finish()


def life_family(c, tier, seed, want):
    """Construct/drop every driver for many offered-feature sets, failing allocations and config
    faults; validate the driver-level trace against Lifecycle.tla and every queue's trace
    against VirtQueue.tla."""
    out = os.path.join(WORK, c.pid, "life.ndjson")
    idx = run_harness("life", out, seed, tier)
    v = validate_traces("LifecycleTrace", "LifecycleTrace.cfg", out, idx, max_events=3000)
    c.add_validation(v, "life")
    res = {}
    for s_, r in zip(idx["scenarios"], idx["summaries"]):
        key = (s_["params"]["kind"], r["result"].split(":")[0])
        res[key] = res.get(key, 0) + 1
    c.extra["constructions_by_driver_and_result"] = {f"{k[0]}:{k[1]}": n for k, n in sorted(res.items())}
    c.samples.append({"family": "life", "scenario": idx["scenarios"][5], "summary": idx["summaries"][5]})
    if want == "queues":
        qv = validate_traces("VirtQueueTrace", "VirtQueueTrace.cfg", out + ".q.ndjson", {"scenarios": []})
        qv["scenarios"] = 0
        c.add_validation(qv, "life/queues")
    if not c.violations:
        for f in (out, out + ".q.ndjson"):
            if os.path.exists(f):
                os.remove(f)


def c06(tier, seed):
    c = Check("C06", tier, seed)
    c.rule = "TLC: the crate's layout arithmetic satisfies the property for all 16 sizes x legacy/modern x region bases (ASSUMEs of LayoutMC) and the life-cycle machine for every transport answer; traces: VirtQueue::new..drop for every size x layout x flag combination x (in-use, max) answer, DMA bases crossing 32-bit boundaries; distinct = configurations"
    c.assumptions = ["LedgerHal's DMA ledger; ModelTransport answers as configured", "real MMIO/PCI transports are covered by C10/C11 (queue_set register values)"]
    c.add_mc(run_tlc_mc("LayoutMC", "LayoutMC.cfg", workers=4, timeout=600))
    out = os.path.join(WORK, c.pid, "layout.ndjson")
    idx = run_harness("layout", out, seed, tier)
    v = validate_traces("LayoutTrace", "LayoutTrace.cfg", out, idx, max_events=3000)
    c.add_validation(v, "layout")
    c.samples.append({"family": "layout", "scenario": idx["scenarios"][0], "summary": idx["summaries"][0]})
    c.samples.append({"family": "layout", "scenario": idx["scenarios"][-1], "summary": idx["summaries"][-1]})
    c.extra["exhaustive_configurations"] = True
    if not c.violations:
        os.remove(out)
    return c.finish()


DEVICE_SPECS = {"blk": ("BlkTrace", 600), "console": ("ConsoleTrace", 600), "net": ("NetTrace", 600), "vsock": ("VsockTrace", 700),
                "evq": ("EventQueueTrace", 600), "cmd": ("CmdTrace", 400)}


def usage_queues(c, tier, seed, net_frames=False, device_level=False):
    """Every driver used (device families of C14-C20, standard-following device, all transports,
    feature sets offering none / one / both of INDIRECT_DESC and EVENT_IDX): each queue's trace is
    validated against VirtQueue.tla with the negotiated bits as its configuration."""
    # (scenario lists of the quick tier; the thorough tier runs them for three seeds - the
    # families' own thorough-sized runs belong to C14-C20)
    rounds = [seed + 3] if tier != "thorough" else [seed + 3, seed + 1003, seed + 2003]
    for fam, useed in [(f, s_) for s_ in rounds for f in ("blk", "console", "net", "vsock", "evq", "cmd")]:
        out = os.path.join(WORK, c.pid, f"use-{fam}.ndjson")
        idx = run_harness(fam, out, useed, "quick")
        qv = validate_traces("VirtQueueTrace", "VirtQueueTrace.cfg", out + ".q.ndjson", {"scenarios": []})
        qv["scenarios"] = len(idx["scenarios"])
        c.add_validation(qv, "use-" + fam + "/queues")
        if device_level or (fam == "net" and net_frames):
            # what the reference device decoded (requests, frames, packets, addresses inside
            # command payloads, feature-gated requests) against the device's own specification
            mod, me = DEVICE_SPECS[fam]
            nv = validate_traces(mod, mod + ".cfg", out, idx, max_events=me)
            nv["scenarios"] = 0
            c.add_validation(nv, f"use-{fam}/device")
        if not c.violations:
            for f in (out, out + ".q.ndjson"):
                if os.path.exists(f):
                    os.remove(f)


def c07(tier, seed):
    c = Check("C07", tier, seed)
    c.rule = ("MC (VirtQueueMC, Adversary=TRUE): the transcribed add/pop/recycle code against a device that writes ANY used element (ids of other chains, free descriptors, out of range) and ANY used index, queue size 2, direct / event-idx (indirect in the thorough tier): descriptor exclusivity, free-list exactness, ledger and never-blocked invariants; negative configuration (no token check) must fail. "
              "Traces: (1) the public VirtQueue API against the misbehaving reference device (bogus / duplicate / dropped completions, arbitrary lengths, index jumps), each scenario recorded twice - the device only pretending to scribble over descriptor table and available ring, and really doing it - the second recording must equal the first event for event and is validated against VirtQueue.tla (scribbling is a stuttering step); "
              "(2) every driver (block, console, network raw+buffered, socket, input, sound, entropy, clock, 9P, GPU) on all transports under the same adversary plus garbled response bytes and arbitrary configuration-space values, configuration windows truncated to any length or missing, queue-size limits: each queue's trace validated against VirtQueue.tla with cfg.adv (the driver half of every add/pop/recycle/unshare must still be exact), the driver-level stream against Adv.tla (call ends in result, clean panic or endless wait; DMA regions released once and as allocated; no heap memory freed while shared with a live device - DRIVER_OK seen, no reset since - while the driver is in use; frame-buffer slice within its DMA region; the console posts its single receive buffer at most once at a time whatever ids the device reports); (3) the command-response devices with scripted error / short / out-of-order answers against Cmd.tla (no DMA region released while a device resource points at it)")
    c.assumptions = ["a panic is 'clean' iff its source location is inside /repo (the crate's own checks, bounds checks and overflow checks of the profile built)",
                     "raw memory safety of accesses that change no observed value is outside what a specification can decide (DESIGN.md 5); LedgerHal bounces every buffer, so device writes cannot leave the shared range",
                     "configuration values that make a driver allocate more memory than the machine has (sound: streams) are excluded: allocator abort is resource exhaustion"]
    mc(c, ["VQ_n2_adversary", "VQ_n2_adversary_ev"] + (["VQ_n2_adversary_ind"] if tier == "thorough" else []), tier, negative=["VQ_bug_no_token_check"])
    vq_family(c, tier, seed, ["adversary"])
    # "whatever a device ... reports as ... configuration values": capability lengths and windows
    # of every size on the real PCI and MMIO transports, accesses around their ends (the bounds
    # grids of C13) - an access outside every advertised window is a BarStray / MmioStray event
    pci_family(c, "ops", "PciTrace", "PciTrace.cfg", seed, tier, max_events=1500)
    # ... and capability lists / BAR tables of every shape through PciTransport::new (a window may
    # only be taken from an allocated memory BAR, whatever the function reports)
    pci_family(c, "new", "PciTrace", "PciTrace.cfg", seed, tier)
    # "arbitrary response bytes" with a meaning: error / short / out-of-order answers of the
    # command-response devices (GPU, sound, entropy, clock, 9P) against Cmd.tla - no DMA region
    # is released while a device resource still points at it, no period buffer returned early
    device_family(c, "cmd", "CmdTrace", "CmdTrace.cfg", seed + 7, tier, max_events=400, queues=False)
    profiles = ["dev", "release"] if tier == "thorough" else ["dev"]
    for prof in profiles:
        out = os.path.join(WORK, c.pid, f"adv-{prof}.ndjson")
        try:
            idx = run_harness("adv", out, seed, tier, profile=prof)
        except HarnessCrash as e:
            # the process died (abort / signal): not a result, not an error, not a clean panic
            c.violation({"kind": "crash", "family": "adv", "profile": prof, "what": str(e), "replay_cmd": "VH_SERIAL=1 " + " ".join(e.cmd)})
            continue
        v = validate_traces("AdvTrace", "AdvTrace.cfg", out, idx, max_events=1)
        c.add_validation(v, f"adv/{prof}")
        c.states += v["states"]
        qv = validate_traces("VirtQueueTrace", "VirtQueueTrace.cfg", out + ".q.ndjson", {"scenarios": []}, max_events=3000)
        qv["scenarios"] = 0
        c.add_validation(qv, f"adv/{prof}/queues")
        agg = {}
        for s in idx["summaries"]:
            for k, n in (s.get("adversary") or {}).items():
                agg[k] = agg.get(k, 0) + n
            agg["clean_panics"] = agg.get("clean_panics", 0) + s.get("clean_panics", 0)
            agg["endless_waits"] = agg.get("endless_waits", 0) + s.get("stuck", 0)
        c.extra.setdefault("adversary_actions", {})[prof] = agg
        c.samples.append({"family": "adv", "scenario": idx["scenarios"][0], "summary": idx["summaries"][0]})
        if not c.violations:
            for f in (out, out + ".q.ndjson"):
                if os.path.exists(f):
                    os.remove(f)
    return c.finish()


def c08(tier, seed):
    c = Check("C08", tier, seed)
    c.rule = "MC: generic driver over all subsets of a 6-bit feature projection (negotiation is bit-wise, checked as an ASSUME), negative configurations (DRIVER_OK before queues, accepting unsupported bits) must be refused; traces: all 11 drivers x {no features, all ones, each single bit 0..63, random sets} x legacy/modern on the model transport: ordered transport calls validated against Lifecycle.tla, every queue's trace validated against VirtQueue.tla with the negotiated indirect/event-idx/access-platform bits; usage: the block, console, network (raw+buffered), socket, input, sound-event, entropy, clock, 9P, GPU and sound drivers exercised on all transports under feature sets offering none / one / both of INDIRECT_DESC and EVENT_IDX, queue traces validated with the negotiated bits"
    c.assumptions = ["Supported(dev) in Lifecycle.tla is the documented supported set of each driver", "device-specific feature-gated requests are decided by the device specs (C14-C20)"]
    mc(c, ["Life_q3_modern", "Life_q2_legacy"], tier, module="LifecycleMC", negative=["Life_bug_early_ok", "Life_bug_accept_all"])
    life_family(c, tier, seed, "queues")
    # "thereafter": every driver is used (device families of C14-C20) under feature sets offering
    # none / exactly one / both of INDIRECT_DESC and EVENT_IDX; what the reference device sees in
    # each queue is validated with the *negotiated* bits as the queue's configuration
    usage_queues(c, tier, seed, device_level=True)
    return c.finish()


def c09(tier, seed):
    c = Check("C09", tier, seed, level="model_checking")
    c.rule = "MC: generic driver, 2-3 queues, legacy/modern, every k for the failing allocation, teardown orders (negative: freeing queue memory without unset and before the transport reset); traces (fault enumeration): every driver x layout x k-th allocation failing (k=1..9) x config-space faults, then drop; DMA ledger, queue_unset/reset order and frees of still-shared heap memory validated against Lifecycle.tla; usage: every driver's usage scenarios on all transports reduced to calls / DMA ledger / heap frees of shared memory and validated against Adv.tla (no buffer posted to a live queue is released while the driver is in use)"
    c.assumptions = ["allocator interposition reports frees of memory still shared with a queue", "use.* traces: the usage scenarios of the device families (C14-C20) with a standard-following device, every scenario ending with drop"]
    mc(c, ["Life_q3_modern", "Life_q2_legacy", "Life_ok_no_unset", "Life_ok_queues_first"], tier, module="LifecycleMC", negative=["Life_bug_live_free"])
    life_family(c, tier, seed + 7, "none")
    # while a driver is in use: every driver's usage scenarios (device families of C14-C20,
    # standard-following device) reduced to calls / DMA ledger / heap frees of memory still shared
    # with the device, validated against Adv.tla - nothing posted to a live queue is released
    out = os.path.join(WORK, c.pid, "use.ndjson")
    idx = run_harness("adv", out, seed + 11, tier, ["plain"])
    v = validate_traces("AdvTrace", "AdvTrace.cfg", out, idx, max_events=2000)
    c.add_validation(v, "use")
    # DMA regions a driver allocates while in use (GPU frame buffer / cursor): released only when
    # no device resource is backed by them any more - detached, or the device reset (Cmd.tla)
    device_family(c, "cmd", "CmdTrace", "CmdTrace.cfg", seed + 5, tier, max_events=400, queues=False)
    if not c.violations:
        for f in (out, out + ".q.ndjson"):
            if os.path.exists(f):
                os.remove(f)
    return c.finish()


def c10(tier, seed):
    c = Check("C10", tier, seed)
    c.rule = "every operation of the Transport interface on the real MmioTransport (directly and through SomeTransport), legacy and modern register-level device, arguments from boundary grids (queue 0/1/2/65535, sizes 2^k, 64-bit address triples from 16-bit limb patterns, feature words, status values, interrupt status 0..3), the same transport initialised a second time after a reset (a legacy device forgets GuestPageSize when status 0 is written), config windows 0..256 bytes; probe grid: magic x version x device id x region size; each operation's access sequence is matched against the pattern Mmio.tla prescribes; register logs of all MMIO-backed driver lives validated against the global rules; distinct = operations executed"
    c.assumptions = ["the register-level device model (harness/src/mmio.rs) is our reading of Virtio 1.2 4.2.2/4.2.4", "safe-mmio custom-mmio dispatch reports every access with its width"]
    out = os.path.join(WORK, c.pid, "mmio.ndjson")
    idx = run_harness("mmio", out, seed, tier)
    v = validate_traces("MmioTrace", "MmioTrace.cfg", out, idx, max_events=1500)
    c.add_validation(v, "mmio")
    c.samples.append({"family": "mmio", "scenario": idx["scenarios"][0], "summary": idx["summaries"][0]})
    c.samples.append({"family": "mmio", "scenario": idx["scenarios"][-1], "summary": idx["summaries"][-1]})
    nops = 0
    with open(out) as f:
        for ln in f:
            if '"e":"Op"' in ln or '"e":"Probe"' in ln:
                nops += 1
    c.evaluations = nops
    c.distinct = nops
    c.states = max(c.states, v["states"])
    # register logs of driver lives on the real MMIO transports
    out2 = os.path.join(WORK, c.pid, "life.ndjson")
    idx2 = run_harness("life", out2, seed, tier)
    v2 = validate_traces("MmioTrace", "MmioTrace.cfg", out2 + ".m.ndjson", idx2, max_events=3000)
    c.add_validation(v2, "life/mmio-registers")
    c.states += v2["states"]
    if not c.violations:
        for f in (out, out2, out2 + ".q.ndjson", out2 + ".m.ndjson"):
            if os.path.exists(f):
                os.remove(f)
    return c.finish()


def c13(tier, seed):
    c = Check("C13", tier, seed)
    c.rule = "MC: read_consistent as coded vs a device updating between any two accesses (3 fields, <=3 updates, liveness under fairness), negative configuration (single pass) must yield a torn value; Apalache (SMT): inductive invariant of the same loop for any number of updates and 1..1000 fields (ReadConsistentInd.tla); traces: (a) bounds grid offset x width x window size on the real MMIO and PCI transports (mmio and pci/ops families, read_config/write_config operations), (b) every placement of <=2 (thorough: 3) device updates among the first 10 (16) accesses of each multi-field reader (blk capacity, socket CID, console size, MAC, 9p tag) on the model transport and the real modern MMIO transport"
    c.assumptions = ["legacy MMIO devices have no generation register: torn reads cannot be excluded there and are outside the property", "snapshot ids are carried by every byte the reader looks at"]
    c.add_mc(run_tlc_mc("ConfigMC", "Config_ok.cfg", workers=2, timeout=300))
    c.add_mc(run_tlc_mc("ConfigMC", "Config_bug_single_pass.cfg", workers=2, timeout=300), expect_violation=True)
    # the same loop with the number of device updates and of fields unbounded: inductive invariant
    # discharged by Apalache (base, step, it implies Untorn; the single-pass variant fails the step)
    c.add_mc(run_apalache("ReadConsistentInd", "IndInv", cinit="CInit", init="Init", length=0))
    c.add_mc(run_apalache("ReadConsistentInd", "IndInv", cinit="CInit", init="IndInit", length=1))
    c.add_mc(run_apalache("ReadConsistentInd", "Untorn", cinit="CInit", init="IndInit", length=0))
    c.add_mc(run_apalache("ReadConsistentInd", "IndInv", cinit="CInit", init="IndInit", nxt="NextSinglePass", length=1), expect_violation=True)
    out = os.path.join(WORK, c.pid, "cfg.ndjson")
    idx = run_harness("cfg", out, seed, tier)
    v = validate_traces("ConfigTrace", "ConfigTrace.cfg", out, idx, max_events=1500)
    c.add_validation(v, "cfg")
    c.samples.append({"family": "cfg", "scenario": idx["scenarios"][17], "summary": idx["summaries"][17]})
    out2 = os.path.join(WORK, c.pid, "mmio.ndjson")
    idx2 = run_harness("mmio", out2, seed, tier)
    v2 = validate_traces("MmioTrace", "MmioTrace.cfg", out2, idx2, max_events=1500)
    c.add_validation(v2, "mmio/config-bounds")
    c.samples.append({"family": "mmio", "scenario": idx2["scenarios"][3], "summary": idx2["summaries"][3]})
    # the same bounds grid on the real PCI transport (device-configuration window of 0..256 bytes)
    pci_family(c, "ops", "PciTrace", "PciTrace.cfg", seed, tier, max_events=1500)
    if not c.violations:
        os.remove(out)
        os.remove(out2)
    return c.finish()


def pci_family(c, mode, module, cfg, seed, tier, max_events=400):
    out = os.path.join(WORK, c.pid, f"pci-{mode}.ndjson")
    idx = run_harness("pci", out, seed, tier, [mode])
    v = validate_traces(module, cfg, out, idx, max_events=max_events)
    c.add_validation(v, f"pci/{mode}")
    c.states += v["states"]
    c.samples.append({"family": f"pci/{mode}", "scenario": idx["scenarios"][0], "summary": idx["summaries"][0]})
    if not c.violations:
        os.remove(out)
    return idx


def c11(tier, seed):
    c = Check("C11", tier, seed)
    c.rule = "TLC (PciMC): limb-arithmetic containment test = mathematical offset+length<=size over all 16-bit-boundary patterns incl. sums wrapping in 32 bits, wrapping formula differs (vacuity), FirstCap over all lists from a menu; traces: thousands of configurations (capability lists with duplicates / short / foreign / reserved-type / reserved-bar entries in any order x BAR tables with I/O, 32/64-bit, unallocated, sizes up to 2^63 x weird 32-bit offsets/lengths/multipliers, windows shifted by 1..20 bytes) through PciTransport::new over both configuration access front ends, result + mapped regions validated by Pci.tla; a queue is set up on and the device reset through every accepted transport: each access inside a mapped window and naturally aligned for its width; every Transport operation on accepted devices (multipliers 0..8, permuted notify offsets, with/without device config, reset lag) matched against the common-cfg access patterns; all 11 drivers over the real PCI transport (C08/C09 families)"
    c.assumptions = ["register-level virtio-pci device and PCI function models in harness/src/pci.rs follow Virtio 1.2 4.1 / PCI 3.0", "width of accesses to 64-bit common-cfg fields is not constrained by the property (the crate uses single 64-bit accesses; noted in DESIGN.md)"]
    c.add_mc(run_tlc_mc("PciMC", "PciMC.cfg", workers=4, timeout=600))
    i1 = pci_family(c, "new", "PciTrace", "PciTrace.cfg", seed, tier)
    pci_family(c, "ops", "PciTrace", "PciTrace.cfg", seed, tier, max_events=1500)
    acc = sum(s.get("accepted", 0) for s in i1["summaries"])
    tot = sum(s.get("configs", 0) for s in i1["summaries"])
    c.evaluations = tot
    c.distinct = tot
    c.extra["configurations"] = tot
    c.extra["configurations_accepted_by_the_transport"] = acc
    return c.finish()


def c12(tier, seed):
    c = Check("C12", tier, seed)
    c.rule = "TLC (PciBusMC): CAM/ECAM offset has a left inverse (injective) and stays in the window for all device/function/register x buses {0,1,127,255}; traces: bar_info/bars on ~220 function models (I/O incl. 16-bit decoders, 32-bit, below-1MiB, 64-bit, reserved type; sizes 2^2..2^63; every slot; random addresses; 9 initial command values) with every config access validated (no sizing while decoding, everything restored, result = model); all 256x32x8x64 offsets of both mechanisms checked strictly increasing/in window in the harness and sampled into TLC; the real MmioCam routed through the inverse; 40 bus populations and 60 capability chains"
    c.assumptions = ["function model: BAR = (writable mask, flag bits); the property's 'size' is the lowest writable address bit"]
    c.add_mc(run_tlc_mc("PciBusMC", "PciBusMC.cfg", workers=4, timeout=600))
    idx = pci_family(c, "bus", "PciBusTrace", "PciBusTrace.cfg", seed, tier, max_events=2000)
    s0 = idx["summaries"][0]
    c.evaluations = s0.get("bar_info_calls", 0) + s0.get("cam_addresses", 0)
    c.distinct = s0.get("bar_info_calls", 0)
    c.extra["cam_addresses_checked"] = s0.get("cam_addresses", 0)
    return c.finish()


def device_family(c, fam, module, cfg, seed, tier, max_events=600, extra=(), queues=True, profile="dev"):
    """Run a driver-level scenario family; validate the device-level trace against the device
    specification and every virtqueue's trace against VirtQueue.tla."""
    out = os.path.join(WORK, c.pid, f"{fam}{'-'.join(extra)}.ndjson")
    idx = run_harness(fam, out, seed, tier, list(extra), profile=profile)
    v = validate_traces(module, cfg, out, idx, max_events=max_events)
    c.add_validation(v, fam)
    c.states += v["states"]
    res = {}
    for r in idx["summaries"]:
        k = str(r.get("result", "?"))[:40]
        res[k] = res.get(k, 0) + 1
    c.extra.setdefault("scenario_results", {})[fam + "".join(extra)] = res
    c.samples.append({"family": fam, "scenario": idx["scenarios"][0], "summary": idx["summaries"][0]})
    if queues and os.path.exists(out + ".q.ndjson"):
        qv = validate_traces("VirtQueueTrace", "VirtQueueTrace.cfg", out + ".q.ndjson", {"scenarios": []})
        qv["scenarios"] = 0
        c.add_validation(qv, fam + "/queues")
    if not c.violations:
        for f in (out, out + ".q.ndjson"):
            if os.path.exists(f):
                os.remove(f)
    return idx


def c14(tier, seed):
    c = Check("C14", tier, seed)
    c.rule = "MC (BlkMC): every behaviour the guards allow with <=3 outstanding non-blocking requests, 2 sectors, statuses {0,1,3}, any answer/publication order, any poll; traces: random histories of read/write/flush/device_id (blocking) and read_nb/write_nb/complete_* with up to a queue-full outstanding, device statuses {0,1,2,3,9}, sectors incl. > 2^32, 1..128 sectors per request, id strings of 0..20 bytes with and without terminator (length per IdLen), completion in any order, on model / MMIO legacy+modern / PCI transports x servicing policies (notify-only, poll, late) x feature sets (none, FLUSH, RO, INDIRECT/EVENT_IDX, and the write-cache / topology / discard bits the driver does not implement offered without FLUSH); each decoded request and each result validated; queue-level traces validated against VirtQueue.tla"
    c.assumptions = ["the reference block device decodes the request header per Virtio 1.2 5.2.6 (little-endian type/reserved/sector)", "data integrity is compared by 64-bit FNV digests"]
    c.add_mc(run_tlc_mc("BlkMC", "BlkMC.cfg", workers=MCW, timeout=900))
    device_family(c, "blk", "BlkTrace", "BlkTrace.cfg", seed, tier)
    # "capacity ... equals the device's configuration" also while the device changes it: every
    # placement of device updates among the driver's configuration reads (the cfg family of C13)
    out = os.path.join(WORK, c.pid, "cfg.ndjson")
    idx = run_harness("cfg", out, seed, tier)
    v = validate_traces("ConfigTrace", "ConfigTrace.cfg", out, idx, max_events=1500)
    c.add_validation(v, "cfg")
    if not c.violations:
        os.remove(out)
    return c.finish()


def c15(tier, seed):
    c = Check("C15", tier, seed)
    c.rule = "MC (ConsoleMC): the receive path transcribed from console.rs/embedded_io.rs against Console.tla, buffer capacity 3, stream of 7 bytes in chunks 1..3, the device filling at any instant (blocking reads are two-step), every interleaving of recv(peek)/recv(pop)/read/fill_buf+consume/read_ready; negative configuration (re-post while unread bytes remain) must be refused; traces: random API mixes with device chunks 1..4096 bytes on all transports x servicing policies x feature sets; every returned byte is tied to its stream position; transmit side: send / send_bytes, embedded-io write (position-coded, lengths around a page) and core::fmt::Write (write_str, write_char, write! with characters of 1..4 UTF-8 bytes, fill characters, Debug escapes): the chains the device sees carry exactly the caller's bytes"
    c.assumptions = ["stream bytes are position-coded (B(p) = (7p+3) mod 256); bulk reads are logged as (count, first byte, consecutive?)", "blocking reads are only issued when the device has input queued (liveness of an idle device is not part of the property)"]
    c.add_mc(run_tlc_mc("ConsoleMC", "Console_ok.cfg", workers=4, timeout=600))
    c.add_mc(run_tlc_mc("ConsoleMC", "Console_bug_early_repost.cfg", workers=4, timeout=600), expect_violation=True)
    device_family(c, "console", "ConsoleTrace", "ConsoleTrace.cfg", seed, tier)
    return c.finish()


def c16(tier, seed):
    c = Check("C16", tier, seed)
    c.rule = "MC (NetMC): buffer-managing driver transcribed against Net.tla, queue 2/4, frames of abstract length 0..2, any arrival order/burst, with/without VERSION_1, negative configuration (a received buffer is dropped) must violate conservation; traces: raw driver (transmit_begin/complete, receive_begin/complete, send, poll_*) and buffered driver (send/receive/recycle/can_*) with frame lengths 0..buffer size, queue sizes 2/4/16, out-of-order bursts, 10- and 12-byte headers, received frames read through packet() and packet_mut() alike, all transports and policies"
    c.assumptions = ["the reference net device writes a non-trivial virtio-net header of the negotiated size and position-coded frame bytes; frames compared by digest"]
    mc(c, ["Net_q2"] + (["Net_q4"] if tier == "thorough" else []), tier, module="NetMC", negative=["Net_bug_lose_buffer"])
    device_family(c, "net", "NetTrace", "NetTrace.cfg", seed, tier)
    return c.finish()


def c17(tier, seed):
    c = Check("C17", tier, seed)
    c.rule = "MC (VsockCreditMC): the transmit credit window with real 32-bit free-running counters (two 16-bit limbs) started 3 below the wrap, peer buffer 3 bytes, peer consuming and reporting at arbitrary instants, sends of 0..4 bytes: in-flight never exceeds the peer's space, at most one credit request per refusal episode; negative configuration (non-modular compare) overruns; Apalache (SMT): peer_free as coded = true free space for all 32-bit counter values after up to 2^18 wraps (CreditLemma.tla); traces: (a) connection-manager histories with random packetisation (payloads up to one that fills a receive buffer exactly) / read sizes, capacities 1,7,512,1024,65536, credit exhaustion, ring wrap-around, every packet's addressing/len/type/buf_alloc/fwd_cnt checked, bytes read compared run by run with bytes sent; (b) real-width wrap: 4.8 GB sent and 4.3 GB received+read on one connection so tx_cnt and fwd_cnt pass 2^32, counters checked on the wire with limb arithmetic"
    c.assumptions = ["the scripted peer honours the credit the driver advertises (fills in its credit fields at delivery time)", "peer byte streams are affine (+7 mod 256) so runs can be compared without logging payloads"]
    c.add_mc(run_tlc_mc("VsockCreditMC", "VsockCredit_ok.cfg", workers=4, timeout=600))
    c.add_mc(run_tlc_mc("VsockCreditMC", "VsockCredit_bug_nowrap.cfg", workers=4, timeout=600), expect_violation=True)
    # peer_free as coded equals the true free space for counters that wrapped any number of times
    # (up to 2^50 bytes), symbolically (Apalache / SMT); the pre-fix checked arithmetic refuted
    c.add_mc(run_apalache("CreditLemma", "Lemma"))
    c.add_mc(run_apalache("CreditLemma", "LemmaBefore"), expect_violation=True)
    device_family(c, "vsock", "VsockTrace", "VsockTrace.cfg", seed, tier, max_events=700)
    device_family(c, "vsock", "VsockTrace", "VsockTrace.cfg", seed, tier, max_events=10**6, extra=["wrap"], queues=False)
    return c.finish()


def c18(tier, seed):
    c = Check("C18", tier, seed)
    c.rule = "Vsock.tla decides the outcome of every local operation and of every received packet from the connection table and listening set (accept/reset of requests, no state for unknown tuples, per-tuple isolation, shutdown with buffered data, NotConnected/ConnectionExists, receive queue restocked after every poll); traces: random histories over 3 peer addresses x 4 local ports with the full packet menu (request, response, reset, shutdown, data, credit update/request, operation 0 and 9, foreign destination cid, data for unknown tuples, non-data packets with a body) on all transports/policies; the model-checking part is the TLC evaluation of every trace state plus VsockCreditMC"
    c.assumptions = ["an exhaustive connection-level model (VsockConnMC.tla) exists but is too slow to be part of the check (see DESIGN.md); C18 is decided by trace validation against Vsock.tla"]
    c.add_mc(run_tlc_mc("VsockCreditMC", "VsockCredit_ok.cfg", workers=4, timeout=600))
    device_family(c, "vsock", "VsockTrace", "VsockTrace.cfg", seed + 17, tier, max_events=700)
    return c.finish()


def c19(tier, seed):
    c = Check("C19", tier, seed)
    c.rule = "MC (EventQueueMC): OwningQueue::poll transcribed against EventQueue.tla, queue 2 (lengths 0..2) and 4 (0..1), any completion order, bursts up to the queue size, 3N events, handler succeeding or failing; negative configuration (no re-add when the handler fails) must be refused; traces: OwningQueue directly (2x16, 4x64, 8x16; written lengths 0..capacity; handler returning Some/None/Err), VirtIOInput::pop_pending_event and VirtIOSound::latest_notification (32 buffers, 8-byte events), >= 12N+40 events (thorough 100N) in random bursts and orders, all transports; long runs of 66500 events per queue (the 16-bit ring indices wrap; queue-level recording off, device-level trace cut at quiescent markers the specification re-checks); VirtIOSocket::poll is covered by the vsock family (invariant Stocked of Vsock.tla)"
    c.assumptions = ["sound and input events have a fixed size: they are driven with well-formed 8-byte events; arbitrary written lengths are applied to OwningQueue and the socket receive queue"]
    mc(c, ["EventQueue_q2", "EventQueue_q4"], tier, module="EventQueueMC", negative=["EventQueue_bug_no_readd"])
    device_family(c, "evq", "EventQueueTrace", "EventQueueTrace.cfg", seed, tier, max_events=1500)
    device_family(c, "vsock", "VsockTrace", "VsockTrace.cfg", seed + 19, tier, max_events=700, queues=False)
    return c.finish()


def c20(tier, seed):
    c = Check("C20", tier, seed)
    c.rule = "MC (PcmMC): pcm_xfer transcribed, 5-7 bytes in periods of 1-2, ring of 2-3 slots, device completing in order: chunks consecutive, <= period, <= capacity outstanding, terminates with success (liveness under fairness); negative configuration with an out-of-order device yields WrongToken with chains posted (known finding D11); Apalache (SMT): inductive invariant of the same transcription for every frame count and period up to 10^9 and rings of 1..4 slots (PcmInd.tla: base, step, implies Safety; step refuted for an out-of-order device); traces: entropy, clock (every status, clock ids 0..65535, all type/smearing codes), 9P (request/response sizes, bad size header), GPU (resolution, framebuffer setup / re-setup, flush, cursor setup/move, EDID with/without the feature; an error response injected at any command of any operation; DMA ledger of backing memory) and sound (control requests with set_up prefix, parameter validation, PCM blocking transfers with arbitrary frame counts vs period (1..96 periods, exactly one and two ring-fuls included, devices up to 40 driver polls late), non-blocking transfers completed in any order, error statuses) on all transports and policies, every decoded request field compared with the caller's parameters"
    c.assumptions = ["request decoding in harness/src/scen_cmd.rs follows the wire layouts of Virtio 1.2 5.7 / 5.14 and the rtc / 9p device definitions", "EDID parsing is covered by the repository's own vectors only (see DESIGN.md)"]
    mc(c, ["Pcm_inorder", "Pcm_inorder_b"], tier, module="PcmMC", negative=["Pcm_bug_ooo_device"])
    # the same transcription for EVERY frame count and period (ring of up to 4 slots): an inductive
    # invariant discharged by Apalache (base case, step, it implies the property-level Safety);
    # with an out-of-order device the step must fail (D11)
    c.add_mc(run_apalache("PcmInd", "IndInv", cinit="CInit", init="Init", length=0))
    c.add_mc(run_apalache("PcmInd", "IndInv", cinit="CInit", init="IndInit", length=1))
    c.add_mc(run_apalache("PcmInd", "Safety", cinit="CInit", init="IndInit", length=0))
    c.add_mc(run_apalache("PcmInd", "IndInv", cinit="CInit", init="IndInit", nxt="NextOoo", length=1), expect_violation=True)
    device_family(c, "cmd", "CmdTrace", "CmdTrace.cfg", seed, tier, max_events=400)
    device_family(c, "cmd", "CmdTrace", "CmdTrace.cfg", seed, tier, max_events=1, extra=["ooo"], queues=False)
    return c.finish()


PROPS = {"C07": c07, "C20": c20, "C19": c19, "C17": c17, "C18": c18, "C16": c16, "C15": c15, "C14": c14, "C11": c11, "C12": c12, "C10": c10, "C13": c13, "C06": c06, "C08": c08, "C09": c09, "C01": c01, "C02": c02, "C03": c03, "C04": c04, "C05": c05}


def main():
    if len(sys.argv) >= 3 and sys.argv[1] == "--replay":
        return replay(sys.argv[2])
    if len(sys.argv) < 3 or sys.argv[1] not in PROPS:
        print(__doc__)
        return 2
    pid, tier = sys.argv[1], sys.argv[2]
    tier = os.environ.get("VERIF_TIER", tier)
    seed = int(os.environ.get("VERIF_SEED", "1"))
    try:
        return PROPS[pid](tier, seed)
    except HarnessCrash as e:
        # the co-simulation process was killed by a signal while driving the crate (memory
        # corruption): reported as a violation, with the command that reproduces it
        rdir = os.path.join(WORK, "replays", pid)
        os.makedirs(rdir, exist_ok=True)
        path = os.path.join(rdir, f"{tier}-{seed}-crash.json")
        json.dump({"property": pid, "kind": "crash", "what": str(e), "replay_cmd": "VH_SERIAL=1 " + " ".join(e.cmd)}, open(path, "w"), indent=1)
        print(f"VIOLATION property={pid} replay={path}   (the harness process died: {e})")
        return 1
    except ToolError as e:
        log(f"TOOL-ERROR {pid}: {e}")
        return 2
    except Exception:
        traceback.print_exc()
        return 2


def replay(path):
    v = json.load(open(path))
    log(json.dumps(v, indent=1)[:3000])
    fam = (v.get("family") or "").split("/")[0]
    if v.get("kind") != "trace" or not v.get("params"):
        log("model-level counterexample: re-run the configuration named above with tlc to see the behaviour")
        return 0
    tmp = os.path.join(WORK, "replay")
    os.makedirs(tmp, exist_ok=True)
    rp = os.path.join(tmp, "one.json")
    json.dump({"params": v["params"]}, open(rp, "w"))
    out = os.path.join(tmp, "trace.ndjson")
    idx = run_harness(fam, out, 0, "quick", replay=rp)
    log(f"trace of the scenario: {out}")
    return 0


if __name__ == "__main__":
    sys.exit(main())
