#!/bin/bash
# usage: seed_confirm.sh <dir with patch.diff demo.diff> 
# Confirms in a scratch worktree: (1) suite passes with patch, (2) demo fails with patch, (3) demo passes without.
set -u
D="$1"; WT=/tmp/seedwt-$$
git -C /repo worktree add -q --detach $WT HEAD || exit 2
cd $WT
res=0
git apply "$D/patch.diff" || { echo "patch does not apply"; res=2; }
if [ $res = 0 ]; then
  out=$(cargo test --offline 2>&1); echo "$out" | grep -E "^test result" | head -3
  echo "$out" | grep -q "^test result: ok. 57 passed" && echo "SUITE-WITH-PATCH: pass" || { echo "SUITE-WITH-PATCH: FAIL"; res=1; }
  git apply "$D/demo.diff" || { echo "demo does not apply on top of the patch: applying demo first"; git checkout -q -- . ; git clean -fdq -e target; git apply "$D/demo.diff" && git apply "$D/patch.diff" || { echo "demo and patch do not combine"; res=2; }; }
  out=$(RUSTFLAGS="${DEMO_RUSTFLAGS:-}" cargo test --offline 2>&1); echo "$out" | grep -E "^test result|^test .*FAILED" | head -8
  echo "$out" | grep -q "FAILED" && echo "DEMO-WITH-PATCH: fails (good)" || { echo "DEMO-WITH-PATCH: passes (BAD)"; res=1; }
  git checkout -q -- . ; git clean -fdq -e target
  git apply "$D/demo.diff"
  out=$(RUSTFLAGS="${DEMO_RUSTFLAGS:-}" cargo test --offline 2>&1); echo "$out" | grep -E "^test result" | head -4
  echo "$out" | grep -q "FAILED" && { echo "DEMO-WITHOUT-PATCH: FAILS (BAD)"; res=1; } || echo "DEMO-WITHOUT-PATCH: passes (good)"
fi
cd /; git -C /repo worktree remove --force $WT
exit $res
