#!/bin/bash
# usage: seed_batch.sh <suffix> <ids...>  - confirm /tmp/wt-<id><suffix>/OUT, store as seeded/<ID>-<suffix>, run the check
suf=$1; shift
for id in "$@"; do
  n=$(echo $id | tr 'C' 'c')$suf
  [ -f /tmp/wt-$n/OUT/patch.diff ] || { echo "$id: no patch yet"; continue; }
  echo "=== $id-$suf"
  tools/seed_confirm.sh /tmp/wt-$n/OUT 2>&1 | grep -E "SUITE|DEMO|apply"
  mkdir -p seeded/$id-$suf; cp /tmp/wt-$n/OUT/{patch.diff,demo.diff,meta.md} seeded/$id-$suf/
  timeout 1500 ${SEED_RUN:-tools/seed_run.sh} seeded/$id-$suf/patch.diff $id quick 2>&1 | grep -E "VIOLATION|\[C|check exit|TOOL" | head -4
done
