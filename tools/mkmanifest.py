#!/usr/bin/env python3
"""Regenerate MANIFEST.json from the table below (keeps it valid at all times)."""
import json, os, subprocess
ROOT = os.path.dirname(os.path.dirname(os.path.abspath(__file__)))
props = [json.loads(l) for l in open(os.path.join(ROOT, "properties.jsonl"))]
TECH = "explicit TLA+ specification model-checked with TLC + trace validation of the real crate (NDJSON traces of the co-simulation harness replayed through the *Trace.tla specification)"
NOTE = "Small-scope model checking (stated constants) + validation of recorded executions of the code built from /repo's working tree with hooks on; trusted: TLC, the harness (LedgerHal, reference devices, register-level device models), program-order observation of stores."
C = {
 "C01": ("VirtQueue.tla: chain well-formedness / describes-the-caller's-buffers is the guard of PublishIdx and an invariant; TLC explores the complete reachable state space of the store-granular transcription of queue.rs (N=2, direct/indirect, event-idx); every recorded execution of the real VirtQueue (sizes 1..32768, all flag combinations, any completion order) is validated event by event.", "VirtQueue.tla, VirtQueueMC.tla, VirtQueueTrace.tla"),
 "C02": ("Store-granular model: every device-visible store is its own action and the device may read between any two; 'published entries complete' is checked in every intermediate state; the real crate's stores are observed through guarded hooks and each must match the guarded action (a premature index store has no matching action); negative configuration must yield a counterexample.", "VirtQueue.tla, VirtQueueMC.tla, VirtQueueTrace.tla"),
 "C03": ("Spec decides pop outcomes, refusal exactness and modular index arithmetic; TLC covers all completion permutations with wrapping indices; traces include >65536 submissions so the real 16-bit indices wrap.", "VirtQueue.tla, VirtQueueMC.tla, VirtQueueTrace.tla"),
 "C04": ("Share/unshare ledger with guards (fresh address, true range, role direction, access-platform flag, exactly once, nothing on refusal); every Hal call of the real crate under a bouncing Hal is validated; output digests tie device-written bytes to the pop.", "VirtQueue.tla, VirtQueueTrace.tla"),
 "C05": ("vring_need_event in TLA+; TLC compares the coded predicate with it for all index/event/last-checked values modulo 4/8 and both flag values and checks used_event re-arming; traces fast-forward the real queue to the 16-bit boundaries (0, 0x4000, 0x8000, 0xC000) and validate should_notify / set_dev_notify / used_event there; drivers' notify decisions are validated as SN/Notify obligations.", "VirtQueue.tla (MustNotify), VirtQueueMC.tla, VirtQueueTrace.tla"),
 "C06": ("Layout.tla states alignment/size/disjointness/containment/direction/legacy-page-boundary/refusal/release as guards; TLC checks the crate's arithmetic against them for all 16 sizes and both layouts; every configuration (size x layout x flags x transport answer) is executed on the real code and validated.", "Layout.tla, LayoutMC.tla, LayoutTrace.tla"),
 "C08": ("Lifecycle.tla: status machine, negotiation subset rules, queue configuration window, no notification before DRIVER_OK; generic driver model-checked over a 6-bit feature projection; all 11 drivers constructed for every single offered bit / none / all / random sets on the model transport and the real legacy+modern MMIO transports, ordered calls validated; every driver queue's trace validated against VirtQueue.tla with the negotiated bits.", "Lifecycle.tla, LifecycleMC.tla, LifecycleTrace.tla, VirtQueueTrace.tla"),
 "C09": ("Lifecycle.tla: DMA ledger with failing k-th allocation, liveness of queues, guards on dma_dealloc and on heap frees of still-shared memory; model-checked teardown orders; every driver x layout x k x config fault executed and validated (model + real MMIO transports).", "Lifecycle.tla, LifecycleMC.tla, LifecycleTrace.tla"),
 "C10": ("Mmio.tla: register map by version, direction, width, select-before-use and the exact access pattern of every Transport operation; every operation with boundary-grid arguments executed on the real MmioTransport (also via SomeTransport) over a register-level device, probe grid, register logs of driver lives.", "Mmio.tla, MmioTrace.tla"),
 "C11": ("Pci.tla: capability selection (first sufficiently long, non-reserved), window containment in allocated memory BARs with wrap-free limb arithmetic, size/alignment for use, and the common-cfg access pattern of every operation; thousands of generated configurations and operation scripts executed on the real PciTransport (both config access mechanisms, SomeTransport) over register-level models.", "Pci.tla, PciMC.tla, PciTrace.tla"),
 "C12": ("PciBus.tla: BAR = (writable mask, flags); guards on every configuration access of bar_info/bars (no sizing while decoding, restored for results and errors), expected result from the model; CAM/ECAM offset with left inverse (TLC) + all 2x4M offsets in the harness; enumeration and capability walking.", "PciBus.tla, PciBusMC.tla, PciBusTrace.tla"),
 "C14": ("Blk.tla: request encoding (type, reserved, sector, part shapes, data digest), completion matching by token under any completion order, status mapping, flush gating, capacity/read-only; BlkMC explores all allowed behaviours of a small instance; random histories on all transports and servicing policies validated, plus the queue-level traces.", "Blk.tla, BlkMC.tla, BlkTrace.tla, VirtQueueTrace.tla"),
 "C15": ("Console.tla: position-coded device stream, consumed count, one outstanding buffer, re-post only when consumed, every API result determined by the state; ConsoleMC model-checks the transcribed receive path with the device filling at any instant; random API mixes on all transports validated.", "Console.tla, ConsoleMC.tla, ConsoleTrace.tla, VirtQueueTrace.tla"),
 "C16": ("Net.tla: header size by negotiated VERSION_1, tx chain = zeroed header + caller bytes, rx frame/length from the used length, buffer conservation (posted + caller-owned = queue size), readiness queries; NetMC model-checks the buffered driver; random histories on both drivers, all transports validated.", "Net.tla, NetMC.tla, NetTrace.tla, VirtQueueTrace.tla"),
 "C13": ("Config.tla + ConfigMC: read_consistent vs a device updating between any two accesses (negative config yields a torn value); bounds grid on the real MMIO transport; every placement of device updates among the accesses of each multi-field reader on model and modern-MMIO transports.", "Config.tla, ConfigMC.tla, ConfigTrace.tla, Mmio.tla"),
}
commits = subprocess.run(["git", "-C", "/repo", "log", "--format=%h %s"], capture_output=True, text=True).stdout.splitlines()
hook_commits = [l.split()[0] for l in commits if l.split(" ", 1)[1].startswith("verif hooks")]
checks = []
for p in props:
    if p["id"] in C:
        text, mods = C[p["id"]]
        checks.append({"property_id": p["id"], "quick_cmd": f"./check {p['id']} quick", "thorough_cmd": f"./check {p['id']} thorough",
                       "evidence_file": f"/verif/evidence/{p['id']}.json", "replay_cmd_template": "./check --replay {path}", "engine": "tlc+vh",
                       "level_claimed": {"category": "model_checking", "text": text, "design_ref": f"DESIGN.md section 4 / {p['id']}"},
                       "level_note": NOTE, "technique": TECH + f" [{mods}]"})
m = {"version": 1, "setup_cmd": "cd /verif/harness && cargo build --offline",
     "hooks": {"guard": "virtio_drivers_verif", "enable": "rustflags --cfg virtio_drivers_verif in /verif/harness/.cargo/config.toml; the harness depends on /repo by path, so every check rebuilds the crate from /repo's working tree",
               "baseline_off_cmd": "cd /repo && cargo test --workspace --no-fail-fast --offline", "source_commits": hook_commits, "add_only": True},
     "engines": [{"name": "tlc+vh", "path": "/verif/check", "serves_properties": sorted(C), "kind_free_text": "TLC model checking of spec/*.tla + Rust co-simulation harness (harness/, binary vh) whose NDJSON traces are validated by TLC against the same specifications"}],
     "checks": checks,
     "notes": "fix: commits in /repo and their findings are listed in known_findings.json; seeded breaking changes and which checks catch them are under seeded/.",
     "not_applicable": [{"property_id": p["id"], "reason": "check still being built (DESIGN.md section 4 describes the plan); not claimed yet"} for p in props if p["id"] not in C]}
json.dump(m, open(os.path.join(ROOT, "MANIFEST.json"), "w"), indent=1)
print("claimed:", sorted(C))
