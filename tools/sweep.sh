#!/bin/bash
# usage: sweep.sh <seed>...   - all quick checks for other seeds, without touching evidence/ or work/
cd /verif
for s in "$@"; do
  VERIF_SEED=$s VERIF_EVIDENCE=/tmp/vsweep/evidence VERIF_WORK=/tmp/vsweep/work tools/runall.sh quick 2>&1 | sed "s/^/seed=$s /"
  mkdir -p /tmp/vsweep/logs-$s; cp /tmp/vsweep/work/run-*.log /tmp/vsweep/logs-$s/ 2>/dev/null
done
