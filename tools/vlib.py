"""Shared machinery for the checks: build the harness against /repo's working tree, run TLC
(model checking, trace validation), shard traces, write evidence, filter known findings."""
import json, os, re, subprocess, sys, time, shutil, hashlib
from concurrent.futures import ThreadPoolExecutor

ROOT = os.path.dirname(os.path.dirname(os.path.abspath(__file__)))
SPEC = os.path.join(ROOT, "spec")
# (the three overrides are used only by tools/seed_run2.sh, which runs a check against a scratch
# copy of /repo with a seeded change while /repo itself is in use; the registered commands never
# set them)
WORK = os.environ.get("VERIF_WORK", os.path.join(ROOT, "work"))
HARNESS = os.environ.get("VERIF_HARNESS", os.path.join(ROOT, "harness"))
EVIDENCE = os.environ.get("VERIF_EVIDENCE", os.path.join(ROOT, "evidence"))
CP = "/opt/veriftools/tla/tla2tools.jar:/opt/veriftools/tla/CommunityModules-deps.jar"


class ToolError(Exception):
    pass


def log(*a):
    print(*a, flush=True)


def sh(cmd, timeout=None, env=None, cwd=None):
    e = dict(os.environ)
    if env:
        e.update(env)
    try:
        p = subprocess.run(cmd, stdout=subprocess.PIPE, stderr=subprocess.STDOUT, timeout=timeout, env=e, cwd=cwd, text=True, errors="replace")
        return p.returncode, p.stdout
    except subprocess.TimeoutExpired as ex:
        out = ex.stdout or ""
        if isinstance(out, bytes):
            out = out.decode(errors="replace")
        return 124, out


# ------------------------------------------------------------------------------ harness
_built = {}


def build_harness(profile="dev"):
    """cargo build of the harness (path dependency on /repo => rebuilds from its working tree)."""
    if profile in _built:
        return _built[profile]
    lock = os.path.join(HARNESS, "Cargo.lock")
    if not os.path.exists(lock):
        shutil.copy("/repo/Cargo.lock", lock)
    cmd = ["cargo", "build", "--offline"] + (["--release"] if profile == "release" else [])
    t0 = time.time()
    rc, out = sh(cmd, timeout=1800, cwd=HARNESS, env={"CARGO_NET_OFFLINE": "true"})
    if rc != 0:
        log(out[-4000:])
        raise ToolError("cargo build of the harness failed (does /repo still compile with --cfg virtio_drivers_verif?)")
    exe = os.path.join(HARNESS, "target", "release" if profile == "release" else "debug", "vh")
    log(f"[build] harness ({profile}) ok in {time.time()-t0:.1f}s")
    _built[profile] = exe
    return exe


class HarnessCrash(ToolError):
    def __init__(self, msg, cmd):
        super().__init__(msg)
        self.cmd = cmd


def run_harness(family, out, seed, tier, extra=(), profile="dev", timeout=1800, replay=None):
    exe = build_harness(profile)
    os.makedirs(os.path.dirname(out), exist_ok=True)
    cmd = [exe, family, "--out", out, "--seed", str(seed), "--tier", tier] + list(extra)
    if replay:
        cmd += ["--replay", replay]
    t0 = time.time()
    rc, o = sh(cmd, timeout=timeout, cwd=ROOT)
    if rc < 0:
        # killed by a signal (abort on heap corruption, segmentation fault) while driving the crate:
        # not a result, not an error, not a clean panic
        log(o[-3000:])
        raise HarnessCrash(f"harness family {family} {' '.join(extra)} died with signal {-rc}", cmd)
    if rc != 0:
        log(o[-3000:])
        raise ToolError(f"harness family {family} exited with {rc}")
    idx = json.load(open(out + ".index.json"))
    log(f"[harness] {family} {' '.join(extra)}: {len(idx['scenarios'])} scenarios, {idx['events']} events in {time.time()-t0:.1f}s")
    return idx


# ------------------------------------------------------------------------------ TLC
def parse_tlc(out):
    r = {"generated": 0, "distinct": 0, "depth": 0, "violated": None, "error": None, "rejected_at": None, "rejected_event": None}
    m = re.search(r"(\d+) states generated, (\d+) distinct states found", out)
    if m:
        r["generated"], r["distinct"] = int(m.group(1)), int(m.group(2))
    m = re.search(r"depth of the complete state graph search is (\d+)", out)
    if m:
        r["depth"] = int(m.group(1))
    m = re.search(r"Invariant (\w+) is violated", out)
    if m:
        r["violated"] = m.group(1)
    m = re.search(r"Action property (\w+) is violated|Temporal properties were violated|property (\w+) is violated|Temporal property (\w+) was violated", out)
    if m and not r["violated"]:
        r["violated"] = m.group(1) or m.group(2) or m.group(3) or "temporal"
    m = re.search(r'"TRACE_REJECTED_AT", (\d+), (.*)>>', out)
    if m:
        r["rejected_at"] = int(m.group(1))
        r["rejected_event"] = m.group(2)[:600]
    errs = [l for l in out.splitlines() if l.startswith("Error:")]
    if errs:
        r["error"] = " | ".join(errs)[:800]
    r["completed"] = "Model checking completed. No error has been found." in out
    return r


def run_tlc_mc(module, cfg, workers=8, timeout=900, xmx="12g", tag=None, simulate=None, depth_first=False):
    """Model-check spec/<module>.tla with spec/<cfg>. Returns parsed result (+ wall, raw tail)."""
    tag = tag or os.path.splitext(cfg)[0]
    meta = os.path.join(WORK, "tlc", tag)
    shutil.rmtree(meta, ignore_errors=True)
    os.makedirs(meta + ".tmp", exist_ok=True)    # TLC leaves an empty tlc-* directory per run in java.io.tmpdir
    cmd = ["java", "-XX:+UseParallelGC", f"-Xmx{xmx}", f"-Djava.io.tmpdir={meta}.tmp", "-cp", CP, "tlc2.TLC", "-workers", str(workers),
           "-metadir", meta, "-cleanup", "-noGenerateSpecTE", "-config", cfg]
    if simulate:
        cmd += ["-simulate", simulate]
    cmd += [module + ".tla"]
    t0 = time.time()
    rc, out = sh(cmd, timeout=timeout, cwd=SPEC, env={"JAVA_TOOL_OPTIONS": "-Xss512m"})
    r = parse_tlc(out)
    r["wall"] = round(time.time() - t0, 1)
    r["rc"] = rc
    r["cfg"] = cfg
    r["timeout"] = rc == 124
    r["tail"] = out[-1500:]
    shutil.rmtree(meta, ignore_errors=True)
    shutil.rmtree(meta + ".tmp", ignore_errors=True)
    return r


def run_apalache(module, inv, timeout=900, length=0, init=None, cinit=None, nxt=None):
    """Symbolic check (Apalache, SMT) of a state invariant of spec/apalache/<module>.tla: at
    computation length 0 an arithmetic fact over all values of the variables; with init=IndInit and
    length 1 the step of an inductive invariant."""
    tag = "-".join(x for x in (module, inv, init or "", nxt or "", str(length)) if x)
    out = os.path.join(WORK, "apalache", tag)
    shutil.rmtree(out, ignore_errors=True)
    t0 = time.time()
    cmd = ["apalache-mc", "check", f"--length={length}", f"--inv={inv}", f"--out-dir={out}"]
    if init:
        cmd.append(f"--init={init}")
    if cinit:
        cmd.append(f"--cinit={cinit}")
    if nxt:
        cmd.append(f"--next={nxt}")
    rc, o = sh(cmd + [module + ".tla"], timeout=timeout, cwd=os.path.join(SPEC, "apalache"))
    shutil.rmtree(out, ignore_errors=True)
    holds = "The outcome is: NoError" in o
    refuted = "The outcome is: Error" in o and "violated" in o
    if not (holds or refuted):
        raise ToolError(f"apalache could not decide {module}.{inv}: rc={rc} {o[-800:]}")
    return {"cfg": f"apalache/{module}.tla --inv={inv}" + (f" --init={init}" if init else "") + (f" --next={nxt}" if nxt else "") + f" --length={length}", "distinct": 0, "generated": 0, "depth": 0, "wall": round(time.time() - t0, 1),
            "completed": holds, "violated": inv if refuted else None, "error": None, "timeout": rc == 124, "tail": o[-600:], "simulated": False}


def shard_trace(path, max_events=20000):
    """Split an NDJSON trace at scenario boundaries. Returns [(shard_path, [(first_line, sc)])]."""
    shards = []
    cur, cur_idx, n = [], [], 0
    base = path[:-7] if path.endswith(".ndjson") else path
    key = 'Reset"'       # every scenario starts with an event named ...Reset

    def flush():
        nonlocal cur, cur_idx
        if cur:
            sp = f"{base}.shard{len(shards)}.ndjson"
            with open(sp, "w") as f:
                f.writelines(cur)
            shards.append((sp, cur_idx))
            cur, cur_idx = [], []

    with open(path) as f:
        for line in f:
            if key in line and re.search(r'"e":"\w*Reset"', line):
                if len(cur) >= max_events:
                    flush()
                try:
                    sc = json.loads(line).get("sc", "?")
                except Exception:
                    sc = "?"
                cur_idx.append((len(cur) + 1, sc))
            cur.append(line)
    flush()
    return shards


def validate_shard(module, cfg, shard, xmx="3g", timeout=1800):
    tag = "tv_" + hashlib.md5(shard.encode()).hexdigest()[:10]
    meta = os.path.join(WORK, "tlc", tag)
    shutil.rmtree(meta, ignore_errors=True)
    os.makedirs(meta + ".tmp", exist_ok=True)
    cmd = ["java", "-XX:+UseParallelGC", f"-Xmx{xmx}", f"-Djava.io.tmpdir={meta}.tmp", "-cp", CP, "tlc2.TLC", "-workers", "1",
           "-metadir", meta, "-cleanup", "-noGenerateSpecTE", "-config", cfg, module + ".tla"]
    t0 = time.time()
    rc, out = sh(cmd, timeout=timeout, cwd=SPEC,
                 env={"TRACE": shard, "JAVA_TOOL_OPTIONS": "-Xss1g -Dtlc2.tool.queue.IStateQueue=StateDeque"})
    r = parse_tlc(out)
    r["wall"] = round(time.time() - t0, 1)
    r["rc"] = rc
    r["shard"] = shard
    r["tail"] = out[-1200:]
    shutil.rmtree(meta, ignore_errors=True)
    shutil.rmtree(meta + ".tmp", ignore_errors=True)
    return r


def validate_traces(module, cfg, trace_path, index, max_events=20000, parallel=12, xmx="3g", keep=False, timeout=1800):
    """Validate a multi-scenario trace. Returns dict(events, scenarios, shards, rejections=[...])."""
    shards = shard_trace(trace_path, max_events)
    params = {s["sc"]: s["params"] for s in index.get("scenarios", [])}
    t0 = time.time()
    with ThreadPoolExecutor(max_workers=parallel) as ex:
        results = list(ex.map(lambda s: validate_shard(module, cfg, s[0], xmx, timeout), shards))
    rej = []
    events = 0
    states = 0
    for (sp, idx), r in zip(shards, results):
        nlines = sum(1 for _ in open(sp))
        events += nlines
        states += r["generated"]
        accepted = r["completed"] and r["depth"] == nlines + 1 and not r["violated"] and r["rejected_at"] is None
        if accepted:
            continue
        if r["rc"] == 124:
            raise ToolError(f"TLC timed out validating {sp}")
        line = r["rejected_at"] or r["depth"] or 0
        if ("unexpected exception" in (r["error"] or "") or "Cannot convert value" in r["tail"]
                or "The error occurred when TLC was evaluating" in (r["error"] or "")):
            raise ToolError(f"TLC could not evaluate {sp}: {r['error']} {r['tail'][-800:]}")
        if line == 0 and not r["violated"]:
            raise ToolError(f"TLC failed on {sp}: {r['error']} {r['tail'][-600:]}")
        # the scenario the failing line belongs to
        sc, first = "?", 1
        for (fl, s) in idx:
            if fl <= line:
                sc, first = s, fl
        ev = None
        try:
            with open(sp) as f:
                for k, ln in enumerate(f, 1):
                    if k == line:
                        ev = json.loads(ln)
                        break
        except Exception:
            pass
        rej.append({"scenario": sc, "params": params.get(sc), "event_index_in_scenario": line - first + 1,
                    "event": ev, "invariant": r["violated"], "tlc": (r["error"] or "")[:400]})
    if not keep:
        for sp, _ in shards:
            try:
                os.remove(sp)
            except OSError:
                pass
    log(f"[validate] {module}: {events} events in {len(shards)} shards, {len(rej)} rejected, {time.time()-t0:.1f}s")
    return {"events": events, "states": states, "shards": len(shards), "scenarios": len(params), "rejections": rej,
            "wall": round(time.time() - t0, 1)}


# ------------------------------------------------------------------------------ results
def known_findings():
    p = os.path.join(ROOT, "known_findings.json")
    if not os.path.exists(p):
        return []
    return json.load(open(p)).get("findings", [])


def match_finding(pid, viol):
    """A violation is a known finding iff an entry of this property names it specifically."""
    for f in known_findings():
        if f.get("status") != "known" or f.get("property") != pid:
            continue
        m = f.get("match", {})
        blob = json.dumps(viol, sort_keys=True)
        if all(re.search(pat, blob) for pat in m.get("all_regex", [])) and m.get("all_regex"):
            return f
    return None


class Check:
    """Collects coverage and violations of one property check and writes the evidence file."""

    def __init__(self, pid, tier, seed, level="model_checking"):
        self.pid, self.tier, self.seed, self.level = pid, tier, seed, level
        self.t0 = time.time()
        self.states = 0
        self.transitions = 0
        self.traces = 0
        self.events = 0
        self.evaluations = 0
        self.distinct = 0
        self.samples = []
        self.mc = []
        self.violations = []
        self.known = []
        self.assumptions = []
        self.extra = {}
        self.rule = ""

    def add_mc(self, r, expect_violation=False):
        self.states += r["distinct"]
        self.transitions += r["generated"]
        self.mc.append({"cfg": r["cfg"], "distinct": r["distinct"], "generated": r["generated"], "depth": r["depth"],
                        "wall_s": r["wall"], "complete": r["completed"], "violated": r["violated"],
                        "expected_violation": expect_violation})
        if r["timeout"]:
            raise ToolError(f"TLC timed out on {r['cfg']}")
        if expect_violation:
            if not r["violated"]:
                raise ToolError(f"negative configuration {r['cfg']} produced no counterexample (vacuity guard): {r['tail'][-400:]}")
        else:
            if r["violated"]:
                self.violation({"kind": "model", "cfg": r["cfg"], "invariant": r["violated"], "detail": r["error"]})
            elif not r["completed"] and not r.get("simulated"):
                raise ToolError(f"TLC did not complete on {r['cfg']}: {r['error']} {r['tail'][-600:]}")

    def add_validation(self, v, family):
        self.traces += v["scenarios"]
        self.events += v["events"]
        self.transitions += v["events"]
        for r in v["rejections"]:
            r = dict(r)
            r["kind"] = "trace"
            r["family"] = family
            self.violation(r)

    def violation(self, v):
        f = match_finding(self.pid, v)
        if f:
            self.known.append((f, v))
        else:
            self.violations.append(v)

    def finish(self):
        wall = round(time.time() - self.t0, 1)
        os.makedirs(EVIDENCE, exist_ok=True)
        rdir = os.path.join(WORK, "replays", self.pid)
        paths = []
        if self.violations:
            os.makedirs(rdir, exist_ok=True)
        for k, v in enumerate(self.violations):
            pth = os.path.join(rdir, f"{self.tier}-{self.seed}-{k}.json")
            with open(pth, "w") as f:
                json.dump({"property": self.pid, **v}, f, indent=1, default=str)
            paths.append(pth)
        cov = {
            "states": max(self.states, 0), "transitions": max(self.transitions, 0),
            "traces_validated_against_impl": self.traces,
            "trace_events_validated": self.events,
            "evaluations": self.evaluations or (self.traces + len(self.mc)),
            "distinct_nontrivial": self.distinct or self.traces,
            "rule": self.rule,
            "samples": self.samples[:6] or ["(none)"],
            "model_checking_runs": self.mc,
            "exhaustive": all(m["complete"] for m in self.mc) if self.mc else False,
        }
        cov.update(self.extra)
        ev = {"property_id": self.pid, "tier": self.tier, "seed": self.seed, "level": self.level, "coverage": cov,
              "assumptions": self.assumptions, "wall_s": wall, "violations": len(self.violations),
              "known_findings_seen": [f["id"] for f, _ in self.known]}
        with open(os.path.join(EVIDENCE, f"{self.pid}.json"), "w") as f:
            json.dump(ev, f, indent=1, default=str)
        seen = set()
        for f, v in self.known:
            if f["id"] not in seen:
                seen.add(f["id"])
                log(f"KNOWN-FINDING: property={self.pid} {f['id']}: {f['what']}")
        for pth, v in zip(paths, self.violations):
            what = v.get("invariant") or (v.get("event") or {}).get("e") or v.get("kind")
            log(f"VIOLATION property={self.pid} replay={pth}   ({v.get('kind')}: {what}; scenario {v.get('scenario', v.get('cfg'))})")
        log(f"[{self.pid}] tier={self.tier} seed={self.seed} states={self.states} events={self.events} traces={self.traces} "
            f"violations={len(self.violations)} wall={wall}s")
        return 1 if self.violations else 0
