#!/bin/bash
# usage: runall.sh quick|thorough [ids...]  - runs the checks one after another, summary at the end
tier=${1:-quick}; shift
ids=${@:-C01 C02 C03 C04 C05 C06 C07 C08 C09 C10 C11 C12 C13 C14 C15 C16 C17 C18 C19 C20}
cd /verif; LOGDIR=${VERIF_WORK:-work}; mkdir -p $LOGDIR
for id in $ids; do
  t0=$(date +%s)
  ./check $id $tier > $LOGDIR/run-$id-$tier.log 2>&1; rc=$?
  echo "$id $tier exit=$rc wall=$(( $(date +%s) - t0 ))s $(grep -c '^VIOLATION' $LOGDIR/run-$id-$tier.log) violations $(grep -c '^KNOWN-FINDING' $LOGDIR/run-$id-$tier.log) known"
done
