//! Family `cmd` (C20): command/response drivers - GPU, sound, entropy, clock, 9P.
//! The device personalities decode every request per the standard's wire layout, log the decoded
//! fields, and answer according to a response script (success or a chosen error).

use crate::core::*;
use crate::engine::{self, Personality, Response, with_engine};
use crate::out::fnv64;
use crate::scen_blk::policy_of;
use crate::scen_life::queue_segments;
use crate::tmake;
use rand::rngs::SmallRng;
use rand::{Rng, SeedableRng};
use serde_json::{Value, json};
use std::collections::VecDeque;
use std::panic::{AssertUnwindSafe, catch_unwind};
use virtio_drivers::device::gpu::VirtIOGpu;
use virtio_drivers::device::rng::VirtIORng;
use virtio_drivers::device::rtc::VirtIORtc;
use virtio_drivers::device::sound::{PcmFeatures, PcmFormat, PcmRate, VirtIOSound};
use virtio_drivers::device::virtio_9p::VirtIO9p;
use virtio_drivers::transport::Transport;

#[derive(Clone, Debug)]
pub struct CmdParams {
    pub transport: String,
    pub legacy: bool,
    pub offered: u64,
    pub policy: String,
    pub kind: String, // rng | rtc | 9p | gpu | sound | soundooo
    pub ops: usize,
    pub seed: u64,
}
impl CmdParams {
    pub fn to_json(&self) -> Value {
        json!({"family":"cmd","transport":self.transport,"legacy":self.legacy,"offered":hex(self.offered),"policy":self.policy,"kind":self.kind,"ops":self.ops,"seed":self.seed})
    }
    pub fn from_json(v: &Value) -> Self {
        CmdParams {
            transport: v["transport"].as_str().unwrap().into(),
            legacy: v["legacy"].as_bool().unwrap(),
            offered: u64::from_str_radix(v["offered"].as_str().unwrap().trim_start_matches("0x"), 16).unwrap(),
            policy: v["policy"].as_str().unwrap().into(),
            kind: v["kind"].as_str().unwrap().into(),
            ops: v["ops"].as_u64().unwrap() as usize,
            seed: v["seed"].as_u64().unwrap(),
        }
    }
}

fn u32at(b: &[u8], o: usize) -> u32 {
    if o + 4 <= b.len() { u32::from_le_bytes(b[o..o + 4].try_into().unwrap()) } else { 0xdead_beef }
}
fn u64at(b: &[u8], o: usize) -> u64 {
    if o + 8 <= b.len() { u64::from_le_bytes(b[o..o + 8].try_into().unwrap()) } else { 0xdead_beef }
}
fn u16at(b: &[u8], o: usize) -> u16 {
    if o + 2 <= b.len() { u16::from_le_bytes(b[o..o + 2].try_into().unwrap()) } else { 0xdead }
}

pub struct CmdPers {
    pub kind: String,
    /// scripted response codes / statuses for the next requests (None = success)
    pub script: VecDeque<Option<u32>>,
    pub seq: u64,
    // device-side facts
    pub display: (u32, u32),
    pub edid: Vec<u8>,
    /// size field of the EDID response (None: length of `edid`)
    pub edid_size: Option<u32>,
    pub clock: u64,
    pub streams: u32,
    pub jacks: u32,
    pub chmaps: u32,
    /// sound tx: complete out of order
    pub ooo: bool,
}

impl CmdPers {
    fn next_script(&mut self) -> Option<u32> {
        self.script.pop_front().unwrap_or(None)
    }
}

impl Personality for CmdPers {
    fn as_any_mut(&mut self) -> &mut dyn std::any::Any {
        self
    }
    fn request_queues(&self) -> Vec<u16> {
        match self.kind.as_str() {
            "gpu" => vec![0, 1],
            "sound" | "soundooo" => vec![0, 2],
            _ => vec![0],
        }
    }
    fn handle(&mut self, w: &mut World, q: u16, chain: &Chain, rd: &[u8]) -> Option<Response> {
        let rl: Vec<u32> = chain.elems.iter().filter(|e| !e.w).map(|e| e.len).collect();
        let wl: Vec<u32> = chain.elems.iter().filter(|e| e.w).map(|e| e.len).collect();
        let wcap: usize = wl.iter().map(|x| *x as usize).sum();
        self.seq += 1;
        let scr = self.next_script();
        match self.kind.as_str() {
            "rng" => {
                let k = match scr { Some(x) => std::cmp::min(x as usize, wcap), None => wcap };
                let data: Vec<u8> = (0..k).map(|i| (self.seq as u8).wrapping_mul(17).wrapping_add(i as u8)).collect();
                w.dev(json!({"e":"DevCmd","q":q,"rl":rl,"wl":wl,"wrote":k,"dg":fnv64(&data)}));
                Some(Response { data, used_len: None })
            }
            "9p" => {
                // answer with a well-formed 9P header whose size field equals what we write
                let k = match scr { Some(x) => std::cmp::min(x as usize, wcap), None => std::cmp::min(wcap, 7 + (self.seq as usize % 50)) };
                let k = std::cmp::max(k, 7);
                let mut data = vec![0u8; std::cmp::min(k, wcap)];
                let claimed = if scr == Some(0xbad) { (k as u32).wrapping_add(3) } else { data.len() as u32 };
                if data.len() >= 4 {
                    data[0..4].copy_from_slice(&claimed.to_le_bytes());
                }
                for (i, b) in data.iter_mut().enumerate().skip(4) {
                    *b = (self.seq as u8).wrapping_add(i as u8);
                }
                w.dev(json!({"e":"DevCmd","q":q,"rl":rl,"wl":wl,"dg":fnv64(rd),"wrote":data.len(),"claimed":claimed,"rdg":fnv64(&data)}));
                Some(Response { data, used_len: None })
            }
            "rtc" => {
                let msg = u16at(rd, 0);
                let reserved_zero = rd.len() >= 8 && rd[2..8].iter().all(|b| *b == 0);
                let clock_id = if rd.len() >= 10 { u16at(rd, 8) as i64 } else { -1 };
                let tail_zero = rd.len() < 16 || rd[10..16].iter().all(|b| *b == 0);
                let status = scr.unwrap_or(0) as u8;
                let mut data = vec![0u8; wcap];
                data[0] = status;
                let mut val = json!(null);
                match msg {
                    0x1000 if wcap >= 10 => { data[8..10].copy_from_slice(&3u16.to_le_bytes()); val = json!({"num_clocks":3}); }
                    0x1001 if wcap >= 11 => {
                        let t = (self.seq % 7) as u8;
                        let sm = ((self.seq / 7) % 4) as u8;
                        let fl = (self.seq % 2) as u8;
                        data[8] = t; data[9] = sm; data[10] = fl;
                        val = json!({"type":t,"smear":sm,"flags":fl});
                    }
                    0x0001 if wcap >= 16 => {
                        self.clock = self.clock.wrapping_mul(6364136223846793005).wrapping_add(1442695040888963407);
                        data[8..16].copy_from_slice(&self.clock.to_le_bytes());
                        val = json!({"reading":hex(self.clock)});
                    }
                    _ => {}
                }
                let mut ev = json!({"e":"DevCmd","q":q,"rl":rl,"wl":wl,"msg":msg,"reserved_zero":reserved_zero && tail_zero,"clock_id":clock_id,"status":status});
                if !val.is_null() { ev["val"] = val; } else { ev["val"] = json!({}); }
                w.dev(ev);
                Some(Response { data, used_len: None })
            }
            "gpu" => {
                let ty = u32at(rd, 0);
                let hdr_clean = u32at(rd, 4) == 0 && u64at(rd, 8) == 0 && u32at(rd, 16) == 0;
                let mut f = json!({"e":"DevCmd","q":q,"rl":rl,"wl":wl,"type":ty,"hdr_clean":hdr_clean});
                let num = |v: u32| -> i64 { if v < 0x4000_0000 { v as i64 } else { -1 } };
                let rect = |o: usize| json!([num(u32at(rd, o)), num(u32at(rd, o + 4)), num(u32at(rd, o + 8)), num(u32at(rd, o + 12))]);
                let mut ok_type = 0x1100u32;
                match ty {
                    0x100 => ok_type = 0x1101,
                    0x101 => { f["res"] = json!(u32at(rd, 24)); f["format"] = json!(u32at(rd, 28)); f["wn"] = json!(num(u32at(rd, 32))); f["hn"] = json!(num(u32at(rd, 36))); }
                    0x102 | 0x107 => { f["res"] = json!(u32at(rd, 24)); f["pad"] = json!(u32at(rd, 28)); }
                    0x103 => { f["rectn"] = rect(24); f["scanout"] = json!(u32at(rd, 40)); f["res"] = json!(u32at(rd, 44)); }
                    0x104 => { f["rectn"] = rect(24); f["res"] = json!(u32at(rd, 40)); f["pad"] = json!(u32at(rd, 44)); }
                    0x105 => { f["rectn"] = rect(24); f["offset"] = json!(hex(u64at(rd, 40))); f["res"] = json!(u32at(rd, 48)); f["pad"] = json!(u32at(rd, 52)); }
                    0x106 => { f["res"] = json!(u32at(rd, 24)); f["nr"] = json!(u32at(rd, 28)); f["addr"] = json!(hex(u64at(rd, 32))); f["lenn"] = json!(num(u32at(rd, 40))); f["pad"] = json!(u32at(rd, 44)); }
                    0x10a => { ok_type = 0x1104; f["scanout"] = json!(u32at(rd, 24)); f["pad"] = json!(u32at(rd, 28)); }
                    0x300 | 0x301 => { f["scanout"] = json!(u32at(rd, 24)); f["x"] = json!(hex(u32at(rd, 28) as u64)); f["y"] = json!(hex(u32at(rd, 32) as u64)); f["pad"] = json!(u32at(rd, 36));
                                       f["res"] = json!(u32at(rd, 40)); f["hot_x"] = json!(hex(u32at(rd, 44) as u64)); f["hot_y"] = json!(hex(u32at(rd, 48) as u64)); }
                    _ => {}
                }
                let rtype = scr.unwrap_or(ok_type);
                f["resp"] = json!(rtype);
                w.dev(f);
                if q == 1 {
                    return Some(Response { data: vec![], used_len: Some(0) });
                }
                let mut data = vec![0u8; 24];
                data[0..4].copy_from_slice(&rtype.to_le_bytes());
                if ty == 0x100 {
                    data.extend(0u32.to_le_bytes());
                    data.extend(0u32.to_le_bytes());
                    data.extend(self.display.0.to_le_bytes());
                    data.extend(self.display.1.to_le_bytes());
                    data.extend(1u32.to_le_bytes());
                    data.extend(0u32.to_le_bytes());
                } else if ty == 0x10a {
                    data.extend(self.edid_size.unwrap_or(self.edid.len() as u32).to_le_bytes());
                    data.extend(0u32.to_le_bytes());
                    let mut e = self.edid.clone();
                    e.resize(1024, 0);
                    data.extend(e);
                }
                data.truncate(wcap);
                Some(Response { data, used_len: None })
            }
            _ => {
                // ---- sound
                if q == 2 {
                    // tx: stream id, then frames; status writable
                    let sid = u32at(rd, 0);
                    let status = scr.unwrap_or(0x8000);
                    w.dev(json!({"e":"DevTx","tok":chain.head,"rl":rl,"wl":wl,"stream":sid,"n":rd.len().saturating_sub(4),"dg":fnv64(&rd[std::cmp::min(4, rd.len())..]),"status":status,
                                 "first":rd.get(4).copied().map(|b| b as i64).unwrap_or(-1),"affine":rd[std::cmp::min(4, rd.len())..].windows(2).all(|x| x[1] == x[0].wrapping_add(7))}));
                    let mut data = status.to_le_bytes().to_vec();
                    data.extend(0u32.to_le_bytes());
                    data.truncate(wcap);
                    return Some(Response { data, used_len: None });
                }
                let code = u32at(rd, 0);
                let status = scr.unwrap_or(0x8000);
                let mut f = json!({"e":"DevCmd","q":q,"rl":rl,"wl":wl,"code":code,"resp":status});
                let mut data = status.to_le_bytes().to_vec();
                match code {
                    1 | 0x100 | 0x200 => {
                        let (start, count, size) = (u32at(rd, 4), u32at(rd, 8), u32at(rd, 12));
                        f["start"] = json!(start); f["count"] = json!(count); f["size"] = json!(size);
                        for i in 0..count {
                            match code {
                                1 => { let mut j = vec![0u8; 24]; j[0..4].copy_from_slice(&(i + 7).to_le_bytes()); j[16] = 1; data.extend(j); }
                                0x100 => {
                                    let mut s = vec![0u8; 32];
                                    s[0..4].copy_from_slice(&(i + 1).to_le_bytes());
                                    s[4..8].copy_from_slice(&0u32.to_le_bytes());
                                    s[8..16].copy_from_slice(&(0xffu64 << (i % 3)).to_le_bytes());
                                    s[16..24].copy_from_slice(&(0x1ffu64 << (i % 2)).to_le_bytes());
                                    s[24] = (i % 2) as u8; // direction: even = output
                                    s[25] = 1; s[26] = 2 + (i % 3) as u8;
                                    data.extend(s);
                                }
                                _ => { let mut c = vec![0u8; 24]; c[4] = 0; c[5] = 2; c[6] = 3; c[7] = 4; data.extend(c); }
                            }
                        }
                    }
                    0x101 => {
                        f["stream"] = json!(u32at(rd, 4)); f["buffer_bytes"] = json!(hex(u32at(rd, 8) as u64)); f["period_bytes"] = json!(hex(u32at(rd, 12) as u64));
                        f["features"] = json!(u32at(rd, 16)); f["channels"] = json!(rd.get(20).copied().unwrap_or(255)); f["format"] = json!(rd.get(21).copied().unwrap_or(255));
                        f["rate"] = json!(rd.get(22).copied().unwrap_or(255)); f["pad"] = json!(rd.get(23).copied().unwrap_or(255));
                    }
                    0x102..=0x105 => { f["stream"] = json!(u32at(rd, 4)); }
                    2 => { f["jack"] = json!(u32at(rd, 4)); f["association"] = json!(u32at(rd, 8)); f["sequence"] = json!(u32at(rd, 12)); }
                    _ => {}
                }
                w.dev(f);
                data.truncate(wcap);
                Some(Response { data, used_len: None })
            }
        }
    }
}

fn dev(v: Value) {
    with_world(|w| w.dev(v));
}
fn unit(r: virtio_drivers::Result<()>) {
    match r {
        Ok(()) => dev(json!({"e":"Ret","ok":true})),
        Err(e) => dev(json!({"e":"Ret","ok":false,"err":format!("{:?}", e)})),
    }
}
thread_local! {
    /// scenarios in which the device never answers with an error (every other one): "in the
    /// absence of device errors" clauses are then in force from construction to drop
    static NO_ERRS: std::cell::Cell<bool> = const { std::cell::Cell::new(false) };
}

/// Script the response of the k-th request of the next call (0-based), if an error is wanted.
fn script(rng: &mut SmallRng, p_err: f64, n: usize, codes: &[u32]) -> Option<(usize, u32)> {
    if rng.gen_bool(p_err) && !NO_ERRS.with(|n| n.get()) {
        let at = rng.gen_range(0..n);
        let code = codes[rng.gen_range(0..codes.len())];
        with_engine(|e| {
            let s = &mut e.pers_mut::<CmdPers>().script;
            s.clear();
            for _ in 0..at {
                s.push_back(None);
            }
            s.push_back(Some(code));
        });
        Some((at, code))
    } else {
        with_engine(|e| e.pers_mut::<CmdPers>().script.clear());
        None
    }
}

fn drive_rng<T: Transport>(t: T, p: &CmdParams, rng: &mut SmallRng) -> String {
    let mut d = match VirtIORng::<LedgerHal, T>::new(t) { Ok(d) => d, Err(e) => return format!("{:?}", e) };
    for _ in 0..p.ops {
        let n = match rng.gen_range(0..5) { 0 => 1, 1 => 4096, _ => rng.gen_range(1..300) };
        // the device may return fewer bytes than asked for
        let short = script(rng, 0.4, 1, &[0, 1, (n / 2) as u32]);
        let _ = short;
        let mut buf = vec![0u8; n];
        dev(json!({"e":"Call","op":"request_entropy","n":n}));
        match d.request_entropy(&mut buf) {
            Ok(k) => dev(json!({"e":"Ret","ok":true,"n":k,"dg":fnv64(&buf[..std::cmp::min(k, n)])})),
            Err(e) => dev(json!({"e":"Ret","ok":false,"err":format!("{:?}", e)})),
        }
    }
    dev(json!({"e":"Drop"}));
    "ok".into()
}

fn drive_9p<T: Transport>(t: T, p: &CmdParams, rng: &mut SmallRng) -> String {
    let mut d = match VirtIO9p::<LedgerHal, T>::new(t) { Ok(d) => d, Err(e) => return format!("{:?}", e) };
    dev(json!({"e":"Call","op":"mount_tag"}));
    dev(json!({"e":"Ret","ok":true,"tag":d.mount_tag()}));
    for _ in 0..p.ops {
        let n = match rng.gen_range(0..6) { 0 => 0, _ => rng.gen_range(1..200) };
        let cap = match rng.gen_range(0..6) { 0 => 3, 1 => 6, 2 => 7, _ => rng.gen_range(7..300) };
        script(rng, 0.3, 1, &[0xbad, 7, 11]);
        let mut req = vec![0u8; n];
        rng.fill(&mut req[..]);
        let mut resp = vec![0u8; cap];
        dev(json!({"e":"Call","op":"request","n":n,"cap":cap,"dg":fnv64(&req)}));
        match d.request(&req, &mut resp) {
            Ok(k) => dev(json!({"e":"Ret","ok":true,"n":k,"dg":fnv64(&resp[..std::cmp::min(k as usize, cap)])})),
            Err(e) => dev(json!({"e":"Ret","ok":false,"err":format!("{:?}", e)})),
        }
    }
    dev(json!({"e":"Drop"}));
    "ok".into()
}

fn drive_rtc<T: Transport>(t: T, p: &CmdParams, rng: &mut SmallRng) -> String {
    use virtio_drivers::device::rtc::{ClockType, SmearingVariant};
    let mut d = match VirtIORtc::<LedgerHal, T>::new(t) { Ok(d) => d, Err(e) => return format!("{:?}", e) };
    for _ in 0..p.ops {
        let id: u16 = [0u16, 1, 2, 255, 65535][rng.gen_range(0..5)];
        script(rng, 0.35, 1, &[2, 3, 4, 5, 9, 255]);
        match rng.gen_range(0..3) {
            0 => {
                dev(json!({"e":"Call","op":"num_clocks"}));
                match d.num_clocks() {
                    Ok(n) => dev(json!({"e":"Ret","ok":true,"v":n})),
                    Err(e) => dev(json!({"e":"Ret","ok":false,"err":format!("{:?}", e)})),
                }
            }
            1 => {
                dev(json!({"e":"Call","op":"clock_cap","clock_id":id}));
                match d.clock_cap(id) {
                    Ok(c) => {
                        let kind = match c.kind { ClockType::Utc => 0, ClockType::Tai => 1, ClockType::Monotonic => 2, ClockType::UtcSmeared => 3, ClockType::UtcMaybeSmeared => 4 };
                        let sm = match c.leap_second_smearing { None => -1, Some(SmearingVariant::NoonLinear) => 1, Some(SmearingVariant::UtcSls) => 2 };
                        dev(json!({"e":"Ret","ok":true,"kind":kind,"smear":sm,"alarm":c.alarm_capability}));
                    }
                    Err(e) => dev(json!({"e":"Ret","ok":false,"err":format!("{:?}", e)})),
                }
            }
            _ => {
                dev(json!({"e":"Call","op":"read","clock_id":id}));
                match d.read(id) {
                    Ok(v) => dev(json!({"e":"Ret","ok":true,"v":hex(v)})),
                    Err(e) => dev(json!({"e":"Ret","ok":false,"err":format!("{:?}", e)})),
                }
            }
        }
    }
    dev(json!({"e":"Drop"}));
    "ok".into()
}

fn drive_gpu<T: Transport>(t: T, p: &CmdParams, rng: &mut SmallRng) -> String {
    let mut g = match VirtIOGpu::<LedgerHal, T>::new(t) { Ok(d) => d, Err(e) => return format!("{:?}", e) };
    let errs = [0x1200u32, 0x1201, 0x1202, 0x1100, 0x1101, 0];
    let mut have_fb = false;
    for _ in 0..p.ops {
        match rng.gen_range(0..10) {
            0 => {
                script(rng, 0.3, 1, &errs);
                dev(json!({"e":"Call","op":"resolution"}));
                match g.resolution() {
                    Ok((w, h)) => dev(json!({"e":"Ret","ok":true,"w":hex(w as u64),"h":hex(h as u64)})),
                    Err(e) => dev(json!({"e":"Ret","ok":false,"err":format!("{:?}", e)})),
                }
            }
            1 | 2 => {
                script(rng, 0.25, if have_fb { 7 } else { 4 }, &errs);
                dev(json!({"e":"Call","op":"setup_framebuffer","had":have_fb}));
                let r = g.setup_framebuffer().map(|b| b.len());
                match r {
                    Ok(n) => { have_fb = true; dev(json!({"e":"Ret","ok":true,"n":n})); }
                    Err(e) => { dev(json!({"e":"Ret","ok":false,"err":format!("{:?}", e)})); }
                }
            }
            3 | 4 => {
                let (w, h) = [(1u32, 1u32), (64, 64), (640, 480), (33, 7), (1920, 1080)][rng.gen_range(0..5)];
                script(rng, 0.25, if have_fb { 6 } else { 3 }, &errs);
                dev(json!({"e":"Call","op":"change_resolution","w":hex(w as u64),"h":hex(h as u64),"wn":w,"hn":h,"had":have_fb}));
                let r = g.change_resolution(w, h).map(|b| b.len());
                match r {
                    Ok(n) => { have_fb = true; dev(json!({"e":"Ret","ok":true,"n":n})); }
                    Err(e) => { dev(json!({"e":"Ret","ok":false,"err":format!("{:?}", e)})); }
                }
            }
            5 | 6 => {
                script(rng, 0.25, 2, &errs);
                dev(json!({"e":"Call","op":"flush"}));
                unit(g.flush());
            }
            7 => {
                let img = vec![0x7fu8; if rng.gen_bool(0.9) { 64 * 64 * 4 } else { 100 }];
                let (x, y, hx, hy) = (rng.r#gen::<u32>(), [0u32, 0xffff_ffff, 17][rng.gen_range(0..3)], rng.gen_range(0..64u32), rng.gen_range(0..64u32));
                script(rng, 0.25, 4, &errs);
                dev(json!({"e":"Call","op":"setup_cursor","len":img.len(),"x":hex(x as u64),"y":hex(y as u64),"hot_x":hex(hx as u64),"hot_y":hex(hy as u64)}));
                unit(g.setup_cursor(&img, x, y, hx, hy));
            }
            8 => {
                let (x, y) = (rng.r#gen::<u32>(), [0u32, 0xffff_ffff][rng.gen_range(0..2)]);
                script(rng, 0.0, 1, &errs);
                dev(json!({"e":"Call","op":"move_cursor","x":hex(x as u64),"y":hex(y as u64)}));
                unit(g.move_cursor(x, y));
            }
            _ => {
                // what the device will report: random blobs, structured ones (unused entries,
                // equal pixel counts, zero active pixels), sizes around the base-block boundary
                let mut blob = vec![0u8; 1024];
                match rng.gen_range(0..3) {
                    0 => rng.fill(&mut blob[..]),
                    1 => {
                        for i in 0..8 {
                            let (b0, b1) = match rng.gen_range(0..5) {
                                0 => (1u8, 1u8),
                                1 => (0xd1, [0x00u8, 0x40, 0x80, 0xc0][rng.gen_range(0..4)] | rng.gen_range(0..64u8)),
                                2 => (1, rng.r#gen()),
                                3 => (rng.r#gen(), 1),
                                _ => (rng.r#gen(), rng.r#gen()),
                            };
                            blob[38 + 2 * i] = b0;
                            blob[39 + 2 * i] = b1;
                        }
                        for k in 0..18 {
                            blob[54 + k] = if rng.gen_bool(0.3) { 0 } else { rng.r#gen() };
                        }
                        if rng.gen_bool(0.2) { blob[54 + 2] = 0; blob[54 + 4] &= 0x0f; }
                        if rng.gen_bool(0.2) { blob[54 + 5] = 0; blob[54 + 7] &= 0x0f; }
                    }
                    _ => blob.iter_mut().for_each(|b| *b = [0u8, 1, 0xff][rng.gen_range(0..3)]),
                }
                let size: u32 = [0u32, 1, 127, 128, 129, 256, 1024, 1025, 0xffff, 0x1_0000, 0x7fff_ffff, 0xffff_ffff][rng.gen_range(0..12)];
                with_engine(|e| {
                    let p = e.pers_mut::<CmdPers>();
                    p.edid = blob.clone();
                    p.edid_size = Some(size);
                });
                script(rng, 0.3, 1, &errs);
                dev(json!({"e":"Call","op":"get_edid"}));
                match g.get_edid(0) {
                    Ok(ed) => {
                        dev(json!({"e":"Ret","ok":true}));
                        let pref = match ed.preferred_resolution() {
                            Ok((w, h)) => json!({"ok":true,"w":w,"h":h}),
                            Err(e) => json!({"ok":false,"err":format!("{:?}", e)}),
                        };
                        let modes: Vec<Value> = ed.standard_timings().iter().map(|(w, h)| json!([w, h])).collect();
                        dev(json!({"e":"Edid","size":[size & 0xffff, size >> 16],"st":blob[38..54],"dtd":blob[54..72],"pref":pref,"modes":modes}));
                    }
                    Err(e) => dev(json!({"e":"Ret","ok":false,"err":format!("{:?}", e)})),
                }
            }
        }
    }
    dev(json!({"e":"Drop"}));
    drop(g);
    "ok".into()
}

fn drive_sound<T: Transport>(t: T, p: &CmdParams, rng: &mut SmallRng) -> String {
    let mut s = match VirtIOSound::<LedgerHal, T>::new(t) { Ok(d) => d, Err(e) => return format!("{:?}", e) };
    let errs = [0x8001u32, 0x8002, 0x8003, 0];
    let mut nb: Vec<u16> = vec![];
    let mut had_long = false;
    let mut period: [usize; 2] = [0, 0];
    for _ in 0..p.ops {
        let sid: u32 = rng.gen_range(0..2);
        match rng.gen_range(0..12) {
            0..=2 => {
                let period_b: u32 = [1u32, 2, 64, 100, 4096][rng.gen_range(0..5)];
                let buffer_b = period_b * [1u32, 2, 4, 3][rng.gen_range(0..4)];
                let bad = rng.gen_bool(0.1);
                let (bb, pb) = if bad { (buffer_b, buffer_b + 1) } else { (buffer_b, period_b) };
                script(rng, 0.2, 4, &errs);
                dev(json!({"e":"Call","op":"pcm_set_params","stream":sid,"buffer_bytes":hex(bb as u64),"period_bytes":hex(pb as u64),"bbn":bb,"pbn":pb,"channels":2,"format":5,"rate":6}));
                let r = s.pcm_set_params(sid, bb, pb, PcmFeatures::empty(), 2, PcmFormat::S16, PcmRate::Rate44100);
                if r.is_ok() {
                    period[sid as usize] = pb as usize;
                }
                unit(r);
            }
            3 => { script(rng, 0.2, 4, &errs); dev(json!({"e":"Call","op":"pcm_prepare","stream":sid})); unit(s.pcm_prepare(sid)); }
            4 => { script(rng, 0.2, 4, &errs); dev(json!({"e":"Call","op":"pcm_start","stream":sid})); unit(s.pcm_start(sid)); }
            5 => { script(rng, 0.2, 4, &errs); dev(json!({"e":"Call","op":"pcm_stop","stream":sid})); unit(s.pcm_stop(sid)); }
            6 => { script(rng, 0.2, 4, &errs); dev(json!({"e":"Call","op":"pcm_release","stream":sid})); unit(s.pcm_release(sid)); }
            7 | 8 => {
                if !nb.is_empty() {
                    continue;
                }
                let per = period[sid as usize];
                // mostly up to 12 periods, sometimes more than the transmit queue has slots (the
                // driver's bookkeeping ring is reused) - up to 80
                let ring_full_first = p.policy == "late" && !std::mem::replace(&mut had_long, true) && per != 0 && per <= 512;
                let periods = if ring_full_first {
                    // the first transfer to a late device is exactly one ring-ful
                    32
                } else if rng.gen_bool(if p.policy == "late" { 0.5 } else { 0.25 }) && per <= 512 {
                    // (exactly one or two ring-fuls as often as anything in between)
                    match rng.gen_range(0..4) { 0 => 32, 1 => [31, 64, 96][rng.gen_range(0..3)], _ => rng.gen_range(33..=80) }
                } else {
                    rng.gen_range(1..=12)
                };
                let n = if per == 0 { 10 } else { per * periods + if !ring_full_first && rng.gen_bool(0.3) { rng.gen_range(0..per) } else { 0 } };
                let start: u8 = rng.r#gen();
                let frames: Vec<u8> = (0..std::cmp::max(n, 1)).map(|i| start.wrapping_add((i as u8).wrapping_mul(7))).collect();
                let chunks = if per == 0 { 1 } else { frames.len().div_ceil(per) };
                script(rng, 0.15, chunks + 3, &errs);
                dev(json!({"e":"Call","op":"pcm_xfer","stream":sid,"n":frames.len(),"first":start}));
                let r = s.pcm_xfer(sid, &frames);
                let failed = r.is_err() && per != 0;
                unit(r);
                with_engine(|e| {
                    e.run(false);
                    e.complete_all();
                });
                if failed && with_engine(|e| e.pers_mut::<CmdPers>().ooo) {
                    // out-of-order device (known finding D11): chains of the aborted transfer may
                    // still be in the queue, nothing meaningful follows
                    break;
                }
            }
            9 => {
                let per = period[sid as usize];
                if per == 0 || nb.len() >= 8 {
                    continue;
                }
                let mut frames = vec![0u8; per];
                rng.fill(&mut frames[..]);
                with_engine(|e| {
                    e.core.complete_in_order = false;
                    e.core.auto_ooo = false;
                });
                script(rng, 0.15, 4, &errs);
                dev(json!({"e":"Call","op":"pcm_xfer_nb","stream":sid,"n":per,"dg":fnv64(&frames)}));
                match s.pcm_xfer_nb(sid, &frames) {
                    Ok(tok) => { nb.push(tok); dev(json!({"e":"Ret","ok":true,"tok":tok})); }
                    Err(e) => dev(json!({"e":"Ret","ok":false,"err":format!("{:?}", e)})),
                }
            }
            10 => {
                with_engine(|e| {
                    e.run(false);
                    let k = e.core.rng.gen_range(0..=e.core.held.len());
                    for _ in 0..k {
                        e.complete_any();
                    }
                });
                if !nb.is_empty() {
                    let k = rng.gen_range(0..nb.len());
                    let tok = nb[k];
                    dev(json!({"e":"Call","op":"pcm_xfer_ok","tok":tok}));
                    let r = s.pcm_xfer_ok(tok);
                    if !matches!(r, Err(virtio_drivers::Error::NotReady) | Err(virtio_drivers::Error::WrongToken)) {
                        nb.remove(k);
                    }
                    unit(r);
                }
            }
            _ => {
                script(rng, 0.2, 4, &errs);
                dev(json!({"e":"Call","op":"output_streams"}));
                match s.output_streams() {
                    Ok(v) => dev(json!({"e":"Ret","ok":true,"list":v})),
                    Err(e) => dev(json!({"e":"Ret","ok":false,"err":format!("{:?}", e)})),
                }
            }
        }
        if nb.is_empty() {
            with_engine(|e| {
                e.complete_all();
                let ooo = e.pers_mut::<CmdPers>().ooo;
                e.core.complete_in_order = !ooo;
                e.core.auto_ooo = ooo;
            });
        }
    }
    // drain outstanding non-blocking transfers
    with_engine(|e| {
        e.run(false);
        e.complete_all();
    });
    for _ in 0..64 {
        if nb.is_empty() { break; }
        for k in (0..nb.len()).rev() {
            let tok = nb[k];
            dev(json!({"e":"Call","op":"pcm_xfer_ok","tok":tok}));
            let r = s.pcm_xfer_ok(tok);
            if !matches!(r, Err(virtio_drivers::Error::NotReady) | Err(virtio_drivers::Error::WrongToken)) { nb.remove(k); }
            unit(r);
        }
    }
    dev(json!({"e":"Drop"}));
    drop(s);
    "ok".into()
}

pub fn run(p: &CmdParams, sc: &str) -> (Vec<Vec<String>>, Value) {
    // every third scenario runs on a platform that maps buffers in place (no bounce copies)
    INPLACE_MODE.with(|m| m.set(p.seed % 3 == 0 && !adv_active()));
    NO_ERRS.with(|n| n.set(p.seed % 2 == 1));
    reset_world();
    INPLACE_MODE.with(|m| m.set(false));
    let mut rng = SmallRng::seed_from_u64(p.seed);
    let zoo_kind = match p.kind.as_str() { "soundooo" => "sound", k => k };
    let display = [(1024u32, 768u32), (1, 1), (1920, 1080), (640, 480)][rng.gen_range(0..4)];
    let pers = CmdPers { kind: p.kind.clone(), script: VecDeque::new(), seq: p.seed, display, edid: vec![0x11; 128], edid_size: None, clock: p.seed,
                         streams: 2, jacks: 2, chmaps: 1, ooo: p.kind == "soundooo" };
    engine::install(Box::new(pers), policy_of(&p.policy), p.seed ^ 0x20, true);
    if zoo_kind == "sound" {
        // a late sound device is, every other time, later than the transmit ring is long: the
        // driver fills all 32 slots before the first period completes
        if p.seed % 2 == 0 {
            engine::set_lateness(40);
        }
        with_engine(|e| {
            e.core.hold_only = Some(2);
            if p.kind == "soundooo" {
                e.core.complete_in_order = false;
                e.core.auto_ooo = true;
            }
        });
    }
    let t = tmake::make(&p.transport, zoo_kind, p.offered, p.legacy, 32768, crate::zoo::config_space(zoo_kind));
    let neg = p.offered;
    with_world(|w| {
        w.trace.clear();
        w.dev(json!({"e":"CmdReset","sc":sc,"kind":zoo_kind,"dw":hex(display.0 as u64),"dh":hex(display.1 as u64),"dwn":display.0,"dhn":display.1,
                     "edid":neg >> 1 & 1 == 1,"ind":neg >> 28 & 1 == 1,"ooo":p.kind == "soundooo","tag":"verifshare","jacks":2,"streams":2,"chmaps":1}));
    });
    let r = catch_unwind(AssertUnwindSafe(|| {
        crate::with_any_transport!(t, t => match zoo_kind {
            "rng" => drive_rng(t, p, &mut rng),
            "9p" => drive_9p(t, p, &mut rng),
            "rtc" => drive_rtc(t, p, &mut rng),
            "gpu" => drive_gpu(t, p, &mut rng),
            _ => drive_sound(t, p, &mut rng),
        })
    }));
    let result = match r {
        Ok(s) => s,
        Err(pn) => {
            let m = crate::scen_vq::panic_msg(&pn);
            with_world(|w| w.dev(json!({"e":"Panic","msg":m})));
            format!("panic: {m}")
        }
    };
    let segs = queue_segments(sc);
    engine::uninstall();
    let keep = ["CmdReset", "Call", "Ret", "Edid", "DevCmd", "DevTx", "DevDone", "DmaAlloc", "DmaDealloc", "Panic", "Stuck", "Drop", "QAdd", "QPop", "\"op\":\"set_status\"", "\"op\":\"drop\""];
    let dlines: Vec<String> = with_world(|w| {
        let l = w.d_lines(&[]).into_iter().filter(|l| keep.iter().any(|k| if k.starts_with('"') { l.contains(k) } else { l.contains(&format!("\"e\":\"{}\"", k)) })).collect();
        w.trace.clear();
        l
    });
    let n = dlines.len();
    (vec![dlines, segs], json!({"result": result, "events": n}))
}

pub fn all_params(which: &str, thorough: bool, seed: u64) -> Vec<CmdParams> {
    let mut v = vec![];
    let mut s = seed.wrapping_mul(5_831);
    for _ in 0..(if thorough { 5 } else { 1 }) {
        let kinds: &[&str] = if which == "ooo" { &["soundooo"] } else { &["rng", "rtc", "9p", "gpu", "sound"] };
        for kind in kinds.iter().copied() {
            for transport in tmake::TRANSPORTS {
                for policy in ["notify", "poll", "late"] {
                    for feat in [0u64, 1 << 28, (1 << 29) | 2, (1 << 28) | (1 << 29) | (1 << 33) | 2] {
                        s += 1;
                        if !thorough && s % 3 != 0 {
                            continue;
                        }
                        let legacy = !transport.starts_with("pci") && s % 5 == 0;
                        let offered = if legacy { feat } else { feat | (1 << 32) };
                        v.push(CmdParams { transport: transport.into(), legacy, offered, policy: policy.into(), kind: kind.into(), ops: if thorough { 150 } else { 50 }, seed: s });
                    }
                }
            }
        }
    }
    v
}
