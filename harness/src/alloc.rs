//! Allocator interposition: notices heap memory being freed while it is still shared with the
//! device (C09).  Never allocates inside the hook.

use std::alloc::{GlobalAlloc, Layout, System};
use std::cell::RefCell;

pub struct Interpose;

struct Ranges {
    /// (va, len, queue, device address)
    shared: Vec<(usize, usize, u16, u64)>,
    freed: Vec<(u16, u64)>,
}

thread_local! {
    static RANGES: RefCell<Ranges> = const { RefCell::new(Ranges { shared: Vec::new(), freed: Vec::new() }) };
}

pub fn reset() {
    RANGES.with(|r| {
        let mut r = r.borrow_mut();
        r.shared.clear();
        r.freed.clear();
        r.shared.reserve(4096);
        r.freed.reserve(4096);
    });
}
pub fn shared_add(va: usize, len: usize, q: u16, pa: u64) {
    RANGES.with(|r| {
        let mut r = r.borrow_mut();
        if r.shared.len() < r.shared.capacity() {
            r.shared.push((va, len, q, pa));
        }
    });
}
pub fn shared_remove(pa: u64) {
    RANGES.with(|r| {
        let mut r = r.borrow_mut();
        if let Some(i) = r.shared.iter().position(|s| s.3 == pa) {
            r.shared.swap_remove(i);
        }
    });
}
pub fn take_freed() -> Vec<(u16, u64)> {
    RANGES.with(|r| match r.try_borrow_mut() {
        Ok(mut r) if !r.freed.is_empty() => {
            let v = r.freed.clone();
            r.freed.clear();
            v
        }
        _ => Vec::new(),
    })
}

unsafe impl GlobalAlloc for Interpose {
    unsafe fn alloc(&self, layout: Layout) -> *mut u8 {
        unsafe { System.alloc(layout) }
    }
    unsafe fn alloc_zeroed(&self, layout: Layout) -> *mut u8 {
        unsafe { System.alloc_zeroed(layout) }
    }
    unsafe fn realloc(&self, ptr: *mut u8, layout: Layout, new_size: usize) -> *mut u8 {
        unsafe { System.realloc(ptr, layout, new_size) }
    }
    unsafe fn dealloc(&self, ptr: *mut u8, layout: Layout) {
        let mut quarantine = false;
        let _ = RANGES.try_with(|r| {
            if let Ok(mut r) = r.try_borrow_mut() {
                if !r.shared.is_empty() {
                    let (a, b) = (ptr as usize, ptr as usize + layout.size());
                    let mut k = 0;
                    while k < r.shared.len() {
                        let (va, len, q, pa) = r.shared[k];
                        if va < b && a < va + len {
                            if r.freed.len() < r.freed.capacity() {
                                r.freed.push((q, pa));
                            }
                            r.shared.swap_remove(k);
                            quarantine = true;
                        } else {
                            k += 1;
                        }
                    }
                }
            }
        });
        // memory the device may still write to (in-place platform) is reported and then kept out
        // of circulation: the use-after-free becomes an event instead of corrupting the harness
        if !quarantine {
            unsafe { System.dealloc(ptr, layout) }
        }
    }
}
