//! Family `mmio` (C10, C13 bounds): every operation of the transport interface on the real
//! `MmioTransport` (also through `SomeTransport`), with arguments from boundary grids, on legacy
//! and modern register-level device models; probing with every header content / region size.

use crate::core::*;
use crate::mmio::{self, VirtioMmioDev};
use rand::rngs::SmallRng;
use rand::{Rng, SeedableRng};
use serde_json::{Value, json};
use std::cell::RefCell;
use std::panic::{AssertUnwindSafe, catch_unwind};
use std::ptr::NonNull;
use std::rc::Rc;
use virtio_drivers::transport::mmio::{MmioTransport, VirtIOHeader};
use virtio_drivers::transport::{DeviceStatus, SomeTransport, Transport};

#[derive(Clone, Debug)]
pub struct MmioParams {
    pub ver: u32,
    pub cfg_len: usize,
    pub some: bool,
    pub seed: u64,
    pub mode: String, // "ops" | "probe"
}
impl MmioParams {
    pub fn to_json(&self) -> Value {
        json!({"family":"mmio","ver":self.ver,"cfg_len":self.cfg_len,"some":self.some,"seed":self.seed,"mode":self.mode})
    }
    pub fn from_json(v: &Value) -> Self {
        MmioParams {
            ver: v["ver"].as_u64().unwrap() as u32,
            cfg_len: v["cfg_len"].as_u64().unwrap() as usize,
            some: v["some"].as_bool().unwrap(),
            seed: v["seed"].as_u64().unwrap(),
            mode: v["mode"].as_str().unwrap().into(),
        }
    }
}

fn op(name: &str, mut args: Value) {
    args["e"] = json!("Op");
    args["name"] = json!(name);
    with_world(|w| w.reg(args));
}
fn op_end(mut r: Value) {
    r["e"] = json!("OpEnd");
    with_world(|w| w.reg(r));
}

fn cfg_read<T: zerocopy::FromBytes + zerocopy::IntoBytes, X: Transport>(t: &X, off: usize) {
    let size = size_of::<T>();
    let huge = off > 0x3fff_ffff;
    op("read_config", json!({"off": if huge { -1 } else { off as i64 }, "size": size, "huge": huge, "offx": hex(off as u64)}));
    let r = catch_unwind(AssertUnwindSafe(|| t.read_config_space::<T>(off)));
    match r {
        Ok(Ok(_)) => op_end(json!({"ok":true})),
        Ok(Err(e)) => op_end(json!({"ok":false,"err":format!("{:?}", e)})),
        Err(p) => with_world(|w| w.reg(json!({"e":"Panic","call":"read_config_space","msg":crate::scen_vq::panic_msg(&p)}))),
    }
}
fn cfg_write<T: zerocopy::IntoBytes + zerocopy::Immutable, X: Transport>(t: &mut X, off: usize, v: T) {
    let size = size_of::<T>();
    let huge = off > 0x3fff_ffff;
    op("write_config", json!({"off": if huge { -1 } else { off as i64 }, "size": size, "huge": huge, "offx": hex(off as u64)}));
    let r = catch_unwind(AssertUnwindSafe(|| t.write_config_space::<T>(off, v)));
    match r {
        Ok(Ok(_)) => op_end(json!({"ok":true})),
        Ok(Err(e)) => op_end(json!({"ok":false,"err":format!("{:?}", e)})),
        Err(p) => with_world(|w| w.reg(json!({"e":"Panic","call":"write_config_space","msg":crate::scen_vq::panic_msg(&p)}))),
    }
}

pub fn exercise<X: Transport>(t: &mut X, set_offered: &dyn Fn(u64), set_isr: &dyn Fn(u32), legacy: bool, cfg_len: usize, rng: &mut SmallRng) {
    let pats: [u64; 6] = [0, 1, 0xffff, 0x8000, 0x1234, 0xfffe];
    let addr = |rng: &mut SmallRng| -> u64 {
        let mut a = 0u64;
        for i in 0..4 {
            a |= pats[rng.gen_range(0..pats.len())] << (16 * i);
        }
        a
    };
    // identity / layout
    op("device_type", json!({}));
    let _ = t.device_type();
    op_end(json!({}));
    op("requires_legacy_layout", json!({}));
    let r = t.requires_legacy_layout();
    op_end(json!({"b": r}));
    // features
    for f in [0u64, 1, 0xffff_ffff, 0x1_0000_0000, u64::MAX, rng.r#gen(), rng.r#gen()] {
        set_offered(f);
        op("read_device_features", json!({}));
        let r = t.read_device_features();
        op_end(json!({"vl": limbs(r, 4)}));
        op("write_driver_features", json!({"vl": limbs(f, 4)}));
        t.write_driver_features(f);
        op_end(json!({}));
    }
    op("set_guest_page_size", json!({"v": 4096}));
    t.set_guest_page_size(4096);
    op_end(json!({}));
    for s in [0u32, 1, 3, 11, 15, 0x80, 0xff, 0xffff_ffff] {
        op("set_status", json!({"vx": hex(s as u64), "vl": limbs(s as u64, 2)}));
        t.set_status(DeviceStatus::from_bits_retain(s));
        op_end(json!({}));
        op("get_status", json!({}));
        let r = t.get_status();
        op_end(json!({"vl": limbs(r.bits() as u64, 2)}));
    }
    // second initialisation of the same transport: the reset above made a legacy device forget
    // the page size, so it has to be told again before any queue is set up
    op("set_guest_page_size", json!({"v": 4096}));
    t.set_guest_page_size(4096);
    op_end(json!({}));
    // (registers hold 32 bits on MMIO, 8 on PCI: the setter truncates as the device would)
    for isr in [0u32, 1, 2, 3, 4, 5, 0x80, 0xfe, 0x8000_0000, 0xffff_fffc, 0xffff_ffff] {
        set_isr(isr);
        op("ack_interrupt", json!({}));
        let r = t.ack_interrupt();
        op_end(json!({"v": r.bits()}));
    }
    op("read_config_generation", json!({}));
    let r = t.read_config_generation();
    op_end(json!({"v": r & 0xffff, "vl": limbs(r as u64, 2)}));
    // queues
    for q in [0u16, 1, 2, 65535] {
        op("max_queue_size", json!({"q": q}));
        let r = t.max_queue_size(q);
        op_end(json!({"vl": limbs(r as u64, 2)}));
        op("notify", json!({"q": q}));
        t.notify(q);
        op_end(json!({}));
        for k in 0..5 {
            let size: u32 = 1 << rng.gen_range(0..16);
            let (d, a, u) = if legacy {
                let pfn: u64 = [1u64, 0x12345, 0xfffff, 0xffff_ffff, rng.gen_range(1..0xffff_ffffu64)][k];
                let d = pfn * 4096;
                let a = d + 16 * size as u64;
                let end = 16 * size as u64 + 2 * (size as u64 + 3);
                (d, a, d + ((end + 4096) & !4095))
            } else {
                (addr(rng), addr(rng), addr(rng))
            };
            op("queue_used", json!({"q": q}));
            let r = t.queue_used(q);
            op_end(json!({"b": r}));
            op("queue_set", json!({"q": q, "size": size, "descl": limbs(d, 4), "availl": limbs(a, 4), "usedl": limbs(u, 4)}));
            let r = catch_unwind(AssertUnwindSafe(|| t.queue_set(q, size, d, a, u)));
            match r {
                Ok(_) => op_end(json!({})),
                Err(pn) => with_world(|w| w.reg(json!({"e":"Panic","call":"queue_set","msg":crate::scen_vq::panic_msg(&pn)}))),
            }
            op("queue_used", json!({"q": q}));
            let r = t.queue_used(q);
            op_end(json!({"b": r}));
            op("queue_unset", json!({"q": q}));
            t.queue_unset(q);
            op_end(json!({}));
        }
    }
    // configuration space bounds (C13)
    let l = cfg_len;
    let mut offs: Vec<usize> = vec![0, 1, 2, 3, 4, 5, 6, 7, 8, 12, 16, 1usize << 32, usize::MAX, usize::MAX - 1, usize::MAX - 3, usize::MAX - 7];
    for d in 0..=9 {
        offs.push(l.saturating_sub(d));
        offs.push(l + d);
    }
    offs.sort();
    offs.dedup();
    for &o in &offs {
        cfg_read::<u8, X>(t, o);
        cfg_read::<[u8; 3], X>(t, o);
        cfg_read::<[u8; 6], X>(t, o);
        if o % 2 == 0 {
            cfg_read::<u16, X>(t, o);
        }
        if o % 4 == 0 {
            cfg_read::<u32, X>(t, o);
            cfg_read::<[u32; 2], X>(t, o);
            cfg_write::<u32, X>(t, o, 0xa5a5_5a5a);
        }
        cfg_write::<u8, X>(t, o, 0x5a);
    }
}

pub fn run(p: &MmioParams, sc: &str) -> (Vec<String>, Value) {
    reset_world();
    let mut rng = SmallRng::seed_from_u64(p.seed);
    let mut n_ops = 0;
    if p.mode == "probe" {
        with_world(|w| w.reg(json!({"e":"MReset","sc":sc,"ver":2,"cfg_len":0})));
        let magics = [0x7472_6976u32, 0x7472_6977, 0x7472_6976 ^ 0x8000_0000, 0];
        let versions = [0u32, 1, 2, 3, 0x10001, 0xffff_ffff];
        let mut devs: Vec<u32> = (0..=27).collect();
        devs.extend([0xffff_ffff, 0x10002, 0x100]);
        let sizes = [0usize, 0xff, 0x100, 0x101, 0x200];
        for &magic in &magics {
            for &ver in &versions {
                for &id in &devs {
                    for &size in &sizes {
                        if magic != magics[0] && rng.gen_bool(0.8) {
                            continue;
                        }
                        let mut d = VirtioMmioDev::new(ver, id, 0, 1, 8, vec![]);
                        d.magic = magic;
                        d.semantic = false;
                        let dev = Rc::new(RefCell::new(d));
                        let base = mmio::map(0x200, dev.clone(), "mmio", 0);
                        let hdr = NonNull::new(base as *mut VirtIOHeader).unwrap();
                        let r = catch_unwind(AssertUnwindSafe(|| unsafe { MmioTransport::new(hdr, size) }));
                        let res = match &r {
                            Ok(Ok(_)) => "ok".to_string(),
                            Ok(Err(e)) => format!("{:?}", e).split('(').next().unwrap().to_string(),
                            Err(_) => "panic".to_string(),
                        };
                        with_world(|w| w.reg(json!({"e":"Probe","size":size,"magic_ok":magic == magics[0],"verl":limbs(ver as u64,2),
                                                     "devl":limbs(id as u64,2),"res":res})));
                        if let Ok(Ok(t)) = r {
                            // dropping the transport resets the device: one write of 0 to Status
                            with_world(|w| w.reg(json!({"e":"Op","name":"drop","vl":[0,0]})));
                            drop(t);
                            op_end(json!({}));
                        }
                        n_ops += 1;
                    }
                }
            }
        }
    } else {
        let mut d = VirtioMmioDev::new(p.ver, 2, 0, 3, 32768, (0..p.cfg_len).map(|i| i as u8).collect());
        d.semantic = false;
        let dev = Rc::new(RefCell::new(d));
        let size = 0x100 + p.cfg_len;
        let base = mmio::map(size, dev.clone(), "mmio", 0);
        let hdr = NonNull::new(base as *mut VirtIOHeader).unwrap();
        let t = unsafe { MmioTransport::new(hdr, size) }.expect("probe");
        with_world(|w| {
            w.trace.clear();
            w.reg(json!({"e":"MReset","sc":sc,"ver":p.ver,"cfg_len":p.cfg_len}));
        });
        let (d1, d2) = (dev.clone(), dev.clone());
        if p.some {
            let mut st: SomeTransport<'static> = t.into();
            exercise(&mut st, &|f| d1.borrow_mut().offered = f, &|i| d2.borrow_mut().isr = i, p.ver == 1, p.cfg_len, &mut rng);
            with_world(|w| w.reg(json!({"e":"Op","name":"drop","vl":[0,0]})));
            drop(st);
            op_end(json!({}));
        } else {
            let mut t = t;
            exercise(&mut t, &|f| d1.borrow_mut().offered = f, &|i| d2.borrow_mut().isr = i, p.ver == 1, p.cfg_len, &mut rng);
            with_world(|w| w.reg(json!({"e":"Op","name":"drop","vl":[0,0]})));
            drop(t);
            op_end(json!({}));
        }
    }
    let lines = with_world(|w| {
        let l = w.m_lines(&[]);
        w.trace.clear();
        l
    });
    let n = lines.len();
    (lines, json!({"events": n, "probes": n_ops}))
}

pub fn all_params(thorough: bool, seed: u64) -> Vec<MmioParams> {
    let mut v = vec![];
    let mut s = seed.wrapping_mul(7919);
    let lens: &[usize] = if thorough { &[0, 1, 2, 3, 4, 5, 6, 7, 8, 12, 16, 60, 255, 256, 4096] } else { &[0, 1, 3, 4, 5, 8, 16, 255, 256] };
    for ver in [1u32, 2] {
        for &cfg_len in lens {
            for some in [false, true] {
                s += 1;
                v.push(MmioParams { ver, cfg_len, some, seed: s, mode: "ops".into() });
            }
        }
    }
    v.push(MmioParams { ver: 2, cfg_len: 0, some: false, seed: s + 1, mode: "probe".into() });
    v
}
