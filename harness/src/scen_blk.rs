//! Family `blk` (C14): block driver against an in-memory disk.

use crate::core::*;
use crate::engine::{self, Personality, Policy, Response, with_engine};
use crate::out::fnv64;
use crate::scen_life::queue_segments;
use crate::tmake;
use rand::rngs::SmallRng;
use rand::{Rng, SeedableRng};
use serde_json::{Value, json};
use std::collections::{BTreeMap, VecDeque};
use std::panic::{AssertUnwindSafe, catch_unwind};
use virtio_drivers::device::blk::{BlkReq, BlkResp, VirtIOBlk};
use virtio_drivers::transport::Transport;

#[derive(Clone, Debug)]
pub struct BlkParams {
    pub transport: String,
    pub legacy: bool,
    pub offered: u64,
    pub policy: String,
    pub ops: usize,
    pub seed: u64,
}
impl BlkParams {
    pub fn to_json(&self) -> Value {
        json!({"family":"blk","transport":self.transport,"legacy":self.legacy,"offered":hex(self.offered),"policy":self.policy,"ops":self.ops,"seed":self.seed})
    }
    pub fn from_json(v: &Value) -> Self {
        BlkParams {
            transport: v["transport"].as_str().unwrap().into(),
            legacy: v["legacy"].as_bool().unwrap(),
            offered: u64::from_str_radix(v["offered"].as_str().unwrap().trim_start_matches("0x"), 16).unwrap(),
            policy: v["policy"].as_str().unwrap().into(),
            ops: v["ops"].as_u64().unwrap() as usize,
            seed: v["seed"].as_u64().unwrap(),
        }
    }
}

pub fn policy_of(s: &str) -> Policy {
    match s {
        "poll" => Policy::Poll,
        "late" => Policy::Late(5),
        _ => Policy::NotifyOnly,
    }
}

pub struct BlkPers {
    pub disk: BTreeMap<u64, Vec<u8>>,
    /// statuses to answer with, in order of arrival (default 0)
    pub statuses: VecDeque<u8>,
    /// id queries answered so far
    pub ids: u32,
}
impl BlkPers {
    fn sector(&self, s: u64) -> Vec<u8> {
        self.disk.get(&s).cloned().unwrap_or_else(|| (0..512).map(|i| (s as u8).wrapping_mul(31).wrapping_add(i as u8)).collect())
    }
}
impl Personality for BlkPers {
    fn as_any_mut(&mut self) -> &mut dyn std::any::Any {
        self
    }
    fn request_queues(&self) -> Vec<u16> {
        vec![0]
    }
    fn handle(&mut self, w: &mut World, _q: u16, chain: &Chain, readable: &[u8]) -> Option<Response> {
        let rl: Vec<u32> = chain.elems.iter().filter(|e| !e.w).map(|e| e.len).collect();
        let wl: Vec<u32> = chain.elems.iter().filter(|e| e.w).map(|e| e.len).collect();
        let wtotal: usize = wl.iter().map(|x| *x as usize).sum();
        if readable.len() < 16 || wtotal < 1 {
            w.dev(json!({"e":"DevReq","tok":chain.head,"malformed":true,"rl":rl,"wl":wl}));
            return Some(Response { data: vec![], used_len: Some(0) });
        }
        let ty = u32::from_le_bytes(readable[0..4].try_into().unwrap());
        let reserved = u32::from_le_bytes(readable[4..8].try_into().unwrap());
        let sector = u64::from_le_bytes(readable[8..16].try_into().unwrap());
        let data = &readable[16..];
        w.dev(json!({"e":"DevReq","tok":chain.head,"malformed":false,"type":ty,"reserved":reserved,"sector":hex(sector),
                     "rl":rl,"wl":wl,"dg":fnv64(data)}));
        let status = self.statuses.pop_front().unwrap_or(0);
        let mut out: Vec<u8> = vec![];
        let mut idj: Option<Vec<u64>> = None;
        let dlen = wtotal - 1;
        match ty {
            0 => {
                for k in 0..(dlen / 512) {
                    out.extend(self.sector(sector.wrapping_add(k as u64)));
                }
                out.resize(dlen, 0);
            }
            1 => {
                if status == 0 {
                    for (k, ch) in data.chunks(512).enumerate() {
                        self.disk.insert(sector.wrapping_add(k as u64), ch.to_vec());
                    }
                }
            }
            8 => {
                // NUL-padded id strings of every length, the full 20 bytes included
                let n = [20usize, 0, 19, 1, 20, 15, 7][(self.ids % 7) as usize];
                self.ids += 1;
                out = b"verif-disk-0001-xyzw"[..n].to_vec();
                out.resize(dlen, 0);
                if n == 7 && dlen >= 12 {
                    // a device need not zero what follows the terminator
                    out[9] = b'!';
                    out[11] = 0xff;
                }
                idj = Some(out.iter().take(20).map(|b| *b as u64).collect());
            }
            _ => {}
        }
        let supplied = fnv64(&out);
        out.resize(dlen, 0);
        out.push(status);
        match idj {
            Some(id) => w.dev(json!({"e":"DevResp","tok":chain.head,"status":status,"dg":supplied,"id":id})),
            None => w.dev(json!({"e":"DevResp","tok":chain.head,"status":status,"dg":supplied})),
        }
        Some(Response { data: out, used_len: None })
    }
}

fn err(e: virtio_drivers::Error) -> String {
    format!("{:?}", e)
}
fn ret(r: &Result<(), virtio_drivers::Error>, extra: Value) {
    let mut v = match r {
        Ok(()) => json!({"e":"Ret","ok":true}),
        Err(e) => json!({"e":"Ret","ok":false,"err":err(*e)}),
    };
    if let Value::Object(m) = extra {
        for (k, x) in m {
            v[k] = x;
        }
    }
    with_world(|w| w.dev(v));
}

struct Nb {
    req: Box<BlkReq>,
    resp: Box<BlkResp>,
    buf: Box<[u8]>,
    write: bool,
}

fn drive<T: Transport>(t: T, p: &BlkParams, rng: &mut SmallRng) -> String {
    let mut blk = match VirtIOBlk::<LedgerHal, T>::new(t) {
        Ok(b) => b,
        Err(e) => return err(e),
    };
    let cap = blk.capacity();
    let mut pool: Vec<(Box<BlkReq>, Box<BlkResp>)> = vec![];
    with_world(|w| w.dev(json!({"e":"Info","capacity":hex(cap),"readonly":blk.readonly()})));
    let mut nb: BTreeMap<u16, Nb> = BTreeMap::new();
    let sectors: [usize; 8] = [0, 1, 7, 0xffff, 0x1_0000, 0xffff_ffff, 0x1_0000_0000, 0x0123_4567_89ab];
    for _ in 0..p.ops {
        let statuses: [u8; 8] = [0, 0, 0, 0, 1, 2, 3, 9];
        let st = statuses[rng.gen_range(0..8)];
        let sector = if rng.gen_bool(0.5) { sectors[rng.gen_range(0..8)] } else { rng.gen_range(0..64) };
        let n = [1usize, 1, 2, 3, 8, 128][rng.gen_range(0..6)];
        let roll: u32 = rng.gen_range(0..100);
        if roll < 18 && nb.is_empty() {
            with_engine(|e| e.pers_mut::<BlkPers>().statuses.push_back(st));
            let mut buf = vec![0u8; 512 * n];
            with_world(|w| w.dev(json!({"e":"Call","op":"read","sector":hex(sector as u64),"n":n})));
            let r = blk.read_blocks(sector, &mut buf);
            ret(&r, json!({"dg":fnv64(&buf)}));
        } else if roll < 36 && nb.is_empty() {
            with_engine(|e| e.pers_mut::<BlkPers>().statuses.push_back(st));
            let mut buf = vec![0u8; 512 * n];
            rng.fill(&mut buf[..]);
            with_world(|w| w.dev(json!({"e":"Call","op":"write","sector":hex(sector as u64),"n":n,"dg":fnv64(&buf)})));
            let r = blk.write_blocks(sector, &buf);
            ret(&r, json!({}));
        } else if roll < 42 && nb.is_empty() {
            with_engine(|e| e.pers_mut::<BlkPers>().statuses.push_back(st));
            with_world(|w| w.dev(json!({"e":"Call","op":"flush"})));
            let r = blk.flush();
            ret(&r, json!({}));
            // an unused scripted status must not leak into the next request
            with_engine(|e| e.pers_mut::<BlkPers>().statuses.clear());
        } else if roll < 47 && nb.is_empty() {
            with_engine(|e| e.pers_mut::<BlkPers>().statuses.push_back(st));
            let mut id = [0u8; 20];
            with_world(|w| w.dev(json!({"e":"Call","op":"device_id"})));
            let r = blk.device_id(&mut id);
            let l = r.as_ref().ok().copied().unwrap_or(0);
            ret(&r.map(|_| ()), json!({"dg":fnv64(&id),"len":l}));
        } else if roll < 75 {
            // non-blocking submission
            let write = rng.gen_bool(0.5);
            // request / response headers come from a pool of consumed ones (as a caller with
            // request slots would do): whatever the previous use left in them must not matter
            let (req, resp) = match pool.pop() {
                Some(h) if rng.gen_bool(0.7) => h,
                _ => (Box::new(BlkReq::default()), Box::new(BlkResp::default())),
            };
            let mut x = Nb { req, resp, buf: vec![0u8; 512 * n].into_boxed_slice(), write };
            if write {
                rng.fill(&mut x.buf[..]);
            }
            with_engine(|e| {
                e.core.complete_in_order = false;
                e.pers_mut::<BlkPers>().statuses.push_back(st)
            });
            with_world(|w| w.dev(json!({"e":"Call","op":if write {"write_nb"} else {"read_nb"},"sector":hex(sector as u64),"n":n,"dg":fnv64(&x.buf)})));
            let r = unsafe {
                if write { blk.write_blocks_nb(sector, &mut x.req, &x.buf, &mut x.resp) } else { blk.read_blocks_nb(sector, &mut x.req, &mut x.buf, &mut x.resp) }
            };
            match r {
                Ok(tok) => {
                    with_world(|w| w.dev(json!({"e":"Ret","ok":true,"tok":tok})));
                    nb.insert(tok, x);
                }
                Err(e) => {
                    with_world(|w| w.dev(json!({"e":"Ret","ok":false,"err":err(e)})));
                    with_engine(|e| {
                        e.pers_mut::<BlkPers>().statuses.pop_back();
                    });
                }
            }
        } else if roll < 85 {
            // let the device run: take what it may, complete some in any order
            with_engine(|e| {
                e.run(false);
                let k = e.core.rng.gen_range(0..=e.core.held.len());
                for _ in 0..k {
                    e.complete_any();
                }
            });
        } else if !nb.is_empty() {
            // completion poll: usually the token that is next, sometimes another one
            let peek = blk.peek_used();
            with_world(|w| w.dev(json!({"e":"Peek","r":peek.map(|t| t as i64).unwrap_or(-1)})));
            let tok = match peek {
                Some(t) if nb.contains_key(&t) && rng.gen_bool(0.8) => t,
                _ => *nb.keys().nth(rng.gen_range(0..nb.len())).unwrap(),
            };
            let mut x = nb.remove(&tok).unwrap();
            with_world(|w| w.dev(json!({"e":"Call","op":if x.write {"complete_write"} else {"complete_read"},"tok":tok})));
            let r = unsafe {
                if x.write { blk.complete_write_blocks(tok, &x.req, &x.buf, &mut x.resp) } else { blk.complete_read_blocks(tok, &x.req, &mut x.buf, &mut x.resp) }
            };
            ret(&r, json!({"dg":fnv64(&x.buf)}));
            if matches!(r, Err(virtio_drivers::Error::NotReady) | Err(virtio_drivers::Error::WrongToken)) {
                // not consumed: with NotReady status in resp the driver cannot tell - check the queue
                let consumed = r == Err(virtio_drivers::Error::NotReady) && x.resp.status() == virtio_drivers::device::blk::RespStatus::NOT_READY && false;
                if !consumed {
                    nb.insert(tok, x);
                }
            } else {
                pool.push((x.req, x.resp));
            }
        }
        if nb.is_empty() {
            with_engine(|e| {
                e.complete_all();
                e.core.complete_in_order = true;
            });
        }
    }
    // finish outstanding requests so that buffers outlive the device's use of them
    with_engine(|e| {
        e.policy = Policy::Poll;
        e.run(false);
        e.complete_all();
    });
    while let Some(t) = blk.peek_used() {
        let Some(mut x) = nb.remove(&t) else { break };
        with_world(|w| w.dev(json!({"e":"Call","op":if x.write {"complete_write"} else {"complete_read"},"tok":t})));
        let r = unsafe {
            if x.write { blk.complete_write_blocks(t, &x.req, &x.buf, &mut x.resp) } else { blk.complete_read_blocks(t, &x.req, &mut x.buf, &mut x.resp) }
        };
        ret(&r, json!({"dg":fnv64(&x.buf)}));
    }
    with_world(|w| w.dev(json!({"e":"Drop"})));
    drop(blk);
    drop(nb);
    "ok".into()
}

pub fn run(p: &BlkParams, sc: &str) -> (Vec<Vec<String>>, Value) {
    // every third scenario runs on a platform that maps buffers in place (no bounce copies)
    INPLACE_MODE.with(|m| m.set(p.seed % 3 == 0 && !adv_active()));
    reset_world();
    INPLACE_MODE.with(|m| m.set(false));
    let mut rng = SmallRng::seed_from_u64(p.seed);
    let mut cfg = crate::zoo::config_space("blk");
    let cap: u64 = [0x40u64, 0x1_0000_0040, 0xffff_ffff_ffff_ffff, 1][rng.gen_range(0..4)];
    cfg[0..8].copy_from_slice(&cap.to_le_bytes());
    engine::install(Box::new(BlkPers { disk: BTreeMap::new(), statuses: VecDeque::new(), ids: 0 }), policy_of(&p.policy), p.seed ^ 0x55, true);
    let t = tmake::make(&p.transport, "blk", p.offered, p.legacy, 32768, cfg);
    let neg_ro = p.offered >> 5 & 1 == 1;
    let neg_flush = p.offered >> 9 & 1 == 1;
    with_world(|w| {
        w.trace.clear();
        w.dev(json!({"e":"BlkReset","sc":sc,"cap":hex(cap),"ro":neg_ro,"flush":neg_flush,"ind":p.offered >> 28 & 1 == 1}));
    });
    let r = catch_unwind(AssertUnwindSafe(|| crate::with_any_transport!(t, t => drive(t, p, &mut rng))));
    let result = match r {
        Ok(s) => s,
        Err(pn) => {
            let m = crate::scen_vq::panic_msg(&pn);
            with_world(|w| w.dev(json!({"e":"Panic","msg":m})));
            format!("panic: {m}")
        }
    };
    let segs = queue_segments(sc);
    engine::uninstall();
    let keep = ["BlkReset", "Info", "Call", "Ret", "DevReq", "DevResp", "DevDone", "Peek", "Panic", "Stuck", "Drop"];
    let dlines: Vec<String> = with_world(|w| {
        let l = w.d_lines(&[]).into_iter().filter(|l| keep.iter().any(|k| l.contains(&format!("\"e\":\"{}\"", k)))).collect();
        w.trace.clear();
        l
    });
    let n = dlines.len();
    (vec![dlines, segs], json!({"result": result, "events": n}))
}

pub fn all_params(thorough: bool, seed: u64) -> Vec<BlkParams> {
    let mut v = vec![];
    let mut s = seed.wrapping_mul(48_271);
    let reps = if thorough { 6 } else { 1 };
    for _ in 0..reps {
        for transport in tmake::TRANSPORTS {
            for policy in ["notify", "poll", "late"] {
                for feat in [0u64, 1 << 9, (1 << 5) | (1 << 9) | (1 << 28), (1 << 9) | (1 << 29), (1 << 28) | (1 << 29) | (1 << 33) | (1 << 9),
                             // write-cache / topology / discard bits the driver does not implement, without FLUSH
                             1 << 11, (1 << 6) | (1 << 10) | (1 << 11) | (1 << 12) | (1 << 13) | (1 << 14)] {
                    for legacy in [false, true] {
                        if legacy && transport.starts_with("pci") {
                            continue;
                        }
                        s += 1;
                        let offered = if legacy { feat } else { feat | (1 << 32) };
                        v.push(BlkParams { transport: transport.into(), legacy, offered, policy: policy.into(), ops: if thorough { 400 } else { 120 }, seed: s });
                    }
                }
            }
        }
    }
    v
}
