//! Construct any of the transports (model, real MMIO legacy/modern, real PCI via either
//! configuration access mechanism) for a device of a given kind.

use crate::core::*;
use crate::transport::ModelTransport;
use crate::zoo;
use virtio_drivers::transport::mmio::{MmioTransport, VirtIOHeader};
use virtio_drivers::transport::pci::PciTransport;

thread_local! {
    static CUR_MMIO: std::cell::RefCell<Option<std::rc::Rc<std::cell::RefCell<crate::mmio::VirtioMmioDev>>>> = const { std::cell::RefCell::new(None) };
    static CUR_PCI: std::cell::RefCell<Option<std::rc::Rc<std::cell::RefCell<crate::pci::VirtioPciDev>>>> = const { std::cell::RefCell::new(None) };
}

/// The device raises its queue interrupt (sets the ISR bit the driver will read).
pub fn raise_irq() {
    if let Some(d) = CUR_MMIO.with(|c| c.borrow().clone()) {
        if let Ok(mut d) = d.try_borrow_mut() {
            d.isr |= 1;
        }
    } else if let Some(d) = CUR_PCI.with(|c| c.borrow().clone()) {
        if let Ok(mut d) = d.try_borrow_mut() {
            d.isr |= 1;
        }
    } else {
        crate::transport::TSTATE.with(|t| {
            if let Some(t) = t.borrow_mut().as_mut() {
                t.isr |= 1;
            }
        });
    }
}

pub enum AnyT {
    Model(ModelTransport),
    Mmio(MmioTransport<'static>),
    Pci(PciTransport),
}

/// kind: "model" | "mmio" | "pci" | "pcicam"; `legacy` selects the legacy layout / MMIO version 1.
pub fn make(transport: &str, kind: &str, offered: u64, legacy: bool, max_queue: u32, cfg: Vec<u8>) -> AnyT {
    // C07: arbitrary configuration-space values (and queue size limits) from a misbehaving device
    let (cfg, max_queue) = crate::core::with_world(|w| match w.adv.as_mut() {
        None => (cfg.clone(), max_queue),
        // (p = 0: the adversary layer is only observing - the "plain" mode of the adv family)
        Some(a) if a.p == 0.0 || a.warmup > 0 => (cfg.clone(), max_queue),
        Some(a) => {
            use rand::Rng;
            let mut c = cfg.clone();
            match a.rng.gen_range(0..100) {
                0..=39 => {}
                40..=59 => a.rng.fill(&mut c[..]),
                60..=74 => c.iter_mut().for_each(|b| *b = 0xff),
                75..=84 => c.iter_mut().for_each(|b| *b = 0),
                _ => {
                    for _ in 0..3 {
                        if !c.is_empty() {
                            let k = a.rng.gen_range(0..c.len());
                            c[k] = [0u8, 1, 0x7f, 0x80, 0xff][a.rng.gen_range(0..5)];
                        }
                    }
                }
            }
            // ... and a window of any length the device cares to report, down to none at all
            if a.rng.gen_range(0..5) == 0 {
                let k = if a.rng.gen_bool(0.3) { 0 } else { a.rng.gen_range(0..=c.len()) };
                c.truncate(k);
            }
            if kind == "sound" && c.len() >= 12 {
                // VirtIOSound::new allocates one record per advertised stream: values that exhaust
                // the machine's memory end in the allocator's abort, which is resource exhaustion
                // and not what C07 is about (see DESIGN.md) - keep the three counts below 2^16
                for k in 0..3 {
                    c[4 * k + 2] = 0;
                    c[4 * k + 3] = 0;
                }
            }
            let mq = match a.rng.gen_range(0..12) {
                0 => 0,
                1 => 1,
                2 => 3,
                3 => 65535,
                _ => max_queue,
            };
            *a.counts.entry("config").or_default() += 1;
            (c, mq)
        }
    });
    let nq = zoo::num_queues(kind);
    let dt = zoo::device_type(kind);
    if transport.starts_with("pci") {
        use virtio_drivers::transport::pci::bus::{Cam, DeviceFunction, MmioCam, PciRoot};
        let mut d = crate::pci::VirtioPciDev::new(offered, nq, std::cmp::min(max_queue, 32768) as u16, cfg.clone(), 4);
        d.reset_lag = 1;
        let dev = crate::pci::install_standard((0, 3, 0), dt as u32, d, cfg.len(), !cfg.is_empty());
        CUR_PCI.with(|c| *c.borrow_mut() = Some(dev));
        CUR_MMIO.with(|c| *c.borrow_mut() = None);
        crate::pci::with_bus(|b| b.log = false);
        let df = DeviceFunction { bus: 0, device: 3, function: 0 };
        let r = if transport == "pcicam" {
            let base = crate::pci::map_cam(Cam::Ecam);
            let mut root = PciRoot::new(unsafe { MmioCam::new(base, Cam::Ecam) });
            PciTransport::new::<LedgerHal, _>(&mut root, df)
        } else {
            let mut root = PciRoot::new(crate::pci::ModelCam);
            PciTransport::new::<LedgerHal, _>(&mut root, df)
        };
        AnyT::Pci(r.expect("pci transport"))
    } else if transport == "mmio" {
        let dev = std::rc::Rc::new(std::cell::RefCell::new(crate::mmio::VirtioMmioDev::new(if legacy { 1 } else { 2 }, dt as u32, offered, nq, max_queue, cfg.clone())));
        let size = 0x100 + cfg.len();
        CUR_MMIO.with(|c| *c.borrow_mut() = Some(dev.clone()));
        CUR_PCI.with(|c| *c.borrow_mut() = None);
        let base = crate::mmio::map(size, dev, "mmio", 0);
        let hdr = std::ptr::NonNull::new(base as *mut VirtIOHeader).unwrap();
        AnyT::Mmio(unsafe { MmioTransport::new(hdr, size) }.expect("probe"))
    } else {
        CUR_MMIO.with(|c| *c.borrow_mut() = None);
        CUR_PCI.with(|c| *c.borrow_mut() = None);
        AnyT::Model(ModelTransport::new(dt, offered, legacy, nq, max_queue, cfg))
    }
}

/// Run `$body` with `$t` bound to the concrete transport.
#[macro_export]
macro_rules! with_any_transport {
    ($any:expr, $t:ident => $body:expr) => {
        match $any {
            $crate::tmake::AnyT::Model($t) => $body,
            $crate::tmake::AnyT::Mmio($t) => $body,
            $crate::tmake::AnyT::Pci($t) => $body,
        }
    };
}

pub const TRANSPORTS: [&str; 4] = ["model", "mmio", "pci", "pcicam"];
