//! Glue between the guarded observation hooks of the crate (`virtio_drivers::verif`) and the world.

use crate::core::*;
use serde_json::json;
use virtio_drivers::verif::{Area, Event, set_hook};

#[derive(Clone, Copy, Debug)]
pub enum Point {
    /// after a device-visible store or the fence, inside a queue operation
    Store(u16),
    /// inside a busy-wait loop
    Spin(&'static str, u16),
}

/// Payload used to unwind out of a busy-wait loop that can never terminate.
pub struct Stuck(pub &'static str);

pub fn area_name(a: Area) -> &'static str {
    match a {
        Area::Desc => "desc",
        Area::AvailRing => "ring",
        Area::AvailIdx => "idx",
        Area::AvailFlags => "flags",
        Area::UsedEvent => "used_event",
    }
}

/// Install the recorder; `step` is the scenario's device scheduler, run after each recorded event.
pub fn install(mut step: Box<dyn FnMut(Point)>) {
    set_hook(Some(Box::new(move |ev: &Event| match *ev {
        Event::Store { queue, area, index } => {
            with_world(|w| w.on_store(queue, area_name(area), index));
            let in_new = with_world(|w| w.queues.get(&queue).map(|q| q.in_new).unwrap_or(true));
            if !in_new {
                step(Point::Store(queue));
            }
        }
        Event::Fence { queue } => {
            with_world(|w| w.qev(queue, json!({"e":"Fence"})));
            step(Point::Store(queue));
        }
        Event::Spin { site, queue } => {
            step(Point::Spin(site, queue));
        }
        #[allow(unreachable_patterns)]
        _ => {}
    })));
}

pub fn uninstall() {
    set_hook(None);
}
