//! Glue between the guarded observation hooks of the crate (`virtio_drivers::verif`) and the world.

use crate::core::*;
use serde_json::json;
use virtio_drivers::verif::{Area, Event, set_hook};

#[derive(Clone, Copy, Debug)]
pub enum Point {
    /// after a device-visible store or the fence, inside a queue operation
    Store(u16),
    /// inside a busy-wait loop
    Spin(&'static str, u16),
    /// a queue operation of a driver-owned queue just returned
    After(u16),
}

/// Payload used to unwind out of a busy-wait loop that can never terminate.
pub struct Stuck(pub &'static str);

pub fn area_name(a: Area) -> &'static str {
    match a {
        Area::Desc => "desc",
        Area::AvailRing => "ring",
        Area::AvailIdx => "idx",
        Area::AvailFlags => "flags",
        Area::UsedEvent => "used_event",
    }
}

/// Install the recorder; `step` is the scenario's device scheduler, run after each recorded event.
pub fn install(mut step: Box<dyn FnMut(Point)>) {
    set_hook(Some(Box::new(move |ev: &Event<'_>| match *ev {
        Event::Store { queue, area, index } => {
            with_world(|w| w.on_store(queue, area_name(area), index));
            let in_new = with_world(|w| w.queues.get(&queue).map(|q| q.in_new).unwrap_or(true));
            if !in_new {
                step(Point::Store(queue));
            }
        }
        Event::Fence { queue } => {
            with_world(|w| w.qev(queue, json!({"e":"Fence"})));
            step(Point::Store(queue));
        }
        Event::Spin { site, queue } => {
            step(Point::Spin(site, queue));
        }
        Event::AddBegin { queue, inputs, outputs } => {
            if with_world(|w| w.external_calls) {
                return;
            }
            if with_world(|w| w.queues.get(&queue).map(|q| q.in_new).unwrap_or(false)) {
                with_world(|w| w.end_new(queue));
            }
            let bufs: Vec<serde_json::Value> = inputs
                .iter()
                .map(|b| json!({"va":hex(b.as_ptr() as u64),"len":b.len(),"dir":"ToDevice"}))
                .chain(outputs.iter().map(|b| json!({"va":hex(b.as_ptr() as u64),"len":b.len(),"dir":"FromDevice"})))
                .collect();
            let mut all = Vec::new();
            for o in outputs.iter() {
                all.extend_from_slice(o);
            }
            with_world(|w| {
                w.cur_q = Some(queue);
                w.cur_bufs = inputs.iter().map(|b| (b.as_ptr() as usize, b.len())).chain(outputs.iter().map(|b| (b.as_ptr() as usize, b.len()))).collect();
                w.qev(queue, json!({"e":"AddCall","bufs":bufs,"outdg":crate::out::fnv64(&all)}));
            });
        }
        Event::AddEnd { queue, result } => {
            if with_world(|w| w.external_calls) {
                return;
            }
            with_world(|w| {
                w.cur_q = None;
                w.cur_bufs.clear();
                if let Ok(tok) = result {
                    w.dev(json!({"e":"QAdd","q":queue,"tok":tok}));
                }
                match result {
                    Ok(tok) => w.qev(queue, json!({"e":"AddRet","ok":true,"tok":tok})),
                    Err(e) => w.qev(queue, json!({"e":"AddRet","ok":false,"err":format!("{:?}", e)})),
                }
                if let Some(mut rec) = w.queues.remove(&queue) {
                    w.full_diff(&mut rec);
                    w.queues.insert(queue, rec);
                }
            });
            step(Point::After(queue));
        }
        Event::PopBegin { queue, token, inputs, outputs } => {
            if with_world(|w| w.external_calls) {
                return;
            }
            let mut all = Vec::new();
            for o in outputs.iter() {
                all.extend_from_slice(o);
            }
            with_world(|w| {
                w.cur_q = Some(queue);
                w.cur_bufs = inputs.iter().map(|b| (b.as_ptr() as usize, b.len())).chain(outputs.iter().map(|b| (b.as_ptr() as usize, b.len()))).collect();
                w.cur_outs = outputs.iter().map(|b| (b.as_ptr() as usize, b.len())).collect();
                w.cur_tok = token;
                w.qev(queue, json!({"e":"PopCall","tok":token,"outdg":crate::out::fnv64(&all)}));
            });
        }
        Event::PopEnd { queue, result } => {
            if with_world(|w| w.external_calls) {
                return;
            }
            with_world(|w| {
                let mut all = Vec::new();
                for (p, l) in w.cur_outs.drain(..) {
                    all.extend_from_slice(unsafe { std::slice::from_raw_parts(p as *const u8, l) });
                }
                w.cur_q = None;
                w.cur_bufs.clear();
                if let Ok(len) = result {
                    let tok = w.cur_tok;
                    w.dev(json!({"e":"QPop","q":queue,"tok":tok,"len":len}));
                }
                match result {
                    Ok(len) => w.qev(queue, json!({"e":"PopRet","ok":true,"len":crate::core::hex(len as u64),"outdg":crate::out::fnv64(&all)})),
                    Err(e) => w.qev(queue, json!({"e":"PopRet","ok":false,"err":format!("{:?}", e)})),
                }
                if let Some(mut rec) = w.queues.remove(&queue) {
                    w.full_diff(&mut rec);
                    w.queues.insert(queue, rec);
                }
            });
            step(Point::After(queue));
        }
        Event::ShouldNotify { queue } => {
            if with_world(|w| w.external_calls) {
                return;
            }
            with_world(|w| w.qev(queue, json!({"e":"SN"})));
        }
        Event::SetDevNotify { queue, enable, done } => {
            if with_world(|w| w.external_calls) {
                return;
            }
            with_world(|w| {
                if done {
                    w.qev(queue, json!({"e":"SdnRet"}))
                } else {
                    w.qev(queue, json!({"e":"SdnCall","en":enable}))
                }
            });
        }
        #[allow(unreachable_patterns)]
        _ => {}
    })));
}

pub fn uninstall() {
    set_hook(None);
}
