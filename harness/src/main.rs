#![allow(dead_code)]
//! `vh`: co-simulation harness binding virtio-drivers to the TLA+ specifications in ../spec.
//!
//! vh <family> --out <file> [--seed N] [--tier quick|thorough] [--replay <file>]

mod alloc;
mod anyq;
mod core;
mod engine;
mod hooks;
mod mmio;
mod out;
mod pci;
mod scen_adv;
mod scen_blk;
mod scen_cfg;
mod scen_cmd;
mod scen_console;
mod scen_evq;
mod scen_layout;
mod scen_life;
mod scen_mmio;
mod scen_net;
mod scen_pci;
mod scen_vq;
mod scen_vsock;
mod zoo;
mod tmake;
mod transport;

use serde_json::{Value, json};

#[global_allocator]
static ALLOC: alloc::Interpose = alloc::Interpose;
use std::sync::Arc;
use std::sync::atomic::{AtomicUsize, Ordering};

pub struct Args {
    pub family: String,
    pub out: String,
    pub seed: u64,
    pub tier: String,
    pub replay: Option<String>,
    pub extra: Vec<String>,
}

fn parse_args() -> Args {
    let a: Vec<String> = std::env::args().collect();
    if a.len() < 2 {
        eprintln!("usage: vh <family> --out <file> [--seed N] [--tier quick|thorough] [--replay file]");
        std::process::exit(2);
    }
    let mut args = Args { family: a[1].clone(), out: "work/out.ndjson".into(), seed: 1, tier: "quick".into(), replay: None, extra: vec![] };
    let mut i = 2;
    while i < a.len() {
        match a[i].as_str() {
            "--out" => { args.out = a[i + 1].clone(); i += 2; }
            "--seed" => { args.seed = a[i + 1].parse().expect("seed"); i += 2; }
            "--tier" => { args.tier = a[i + 1].clone(); i += 2; }
            "--replay" => { args.replay = Some(a[i + 1].clone()); i += 2; }
            _ => { args.extra.push(a[i].clone()); i += 1; }
        }
    }
    args
}

/// Run `jobs` on up to 14 worker threads with large stacks; each returns (lines, summary).
pub fn run_parallel<J: Send + Sync + 'static>(
    jobs: Vec<J>,
    f: impl Fn(&J, usize) -> (Vec<String>, Value) + Send + Sync + 'static,
    out: Arc<out::Out>,
) -> Vec<Value> {
    run_parallel_multi(jobs, move |j, k| { let (l, s) = f(j, k); (vec![l], s) }, vec![out])
}

pub fn run_parallel_multi<J: Send + Sync + 'static>(
    jobs: Vec<J>,
    f: impl Fn(&J, usize) -> (Vec<Vec<String>>, Value) + Send + Sync + 'static,
    outs: Vec<Arc<out::Out>>,
) -> Vec<Value> {
    let jobs = Arc::new(jobs);
    let next = Arc::new(AtomicUsize::new(0));
    let f = Arc::new(f);
    let results = Arc::new(std::sync::Mutex::new(vec![Value::Null; jobs.len()]));
    let serial = std::env::var("VH_SERIAL").is_ok();
    let nthreads = if serial { 1 } else { std::cmp::min(14, std::cmp::max(1, jobs.len())) };
    let mut hs = vec![];
    for _ in 0..nthreads {
        let (jobs, next, f, outs, results) = (jobs.clone(), next.clone(), f.clone(), outs.clone(), results.clone());
        hs.push(
            std::thread::Builder::new()
                .stack_size(256 << 20)
                .spawn(move || loop {
                    let k = next.fetch_add(1, Ordering::SeqCst);
                    if k >= jobs.len() {
                        break;
                    }
                    if serial {
                        eprintln!("START {k}");
                    }
                    // a panic of the crate that no scenario caught is data (an event no
                    // specification explains); a panic of the harness itself is a tool failure
                    scen_adv::PANIC_LOCS.with(|l| l.borrow_mut().clear());
                    let (lines, summary) = match std::panic::catch_unwind(std::panic::AssertUnwindSafe(|| f(&jobs[k], k))) {
                        Ok(x) => x,
                        Err(_) => {
                            let loc = scen_adv::PANIC_LOCS.with(|l| l.borrow().last().map(|x| x.0.clone())).unwrap_or_default();
                            if !scen_adv::in_crate(&loc) {
                                eprintln!("HARNESS PANIC in scenario {k} at {loc}");
                                std::process::exit(3);
                            }
                            let mut v = vec![vec![]; outs.len()];
                            v[0] = vec![json!({"e":"ScenarioPanic","job":k,"loc":loc}).to_string()];
                            (v, json!({"result": format!("panic at {loc}")}))
                        }
                    };
                    for (o, l) in outs.iter().zip(lines.iter()) {
                        o.block(l);
                    }
                    results.lock().unwrap()[k] = summary;
                })
                .unwrap(),
        );
    }
    for h in hs {
        h.join().expect("worker thread");
    }
    for o in outs.iter() {
        o.finish();
    }
    Arc::try_unwrap(results).unwrap().into_inner().unwrap()
}

fn main() {
    // panics of the code under test are data: keep them quiet, they are logged as events
    std::panic::set_hook(Box::new(|info| {
        scen_adv::note_panic(info);
        if std::env::var("VH_PANICS").is_ok() {
            eprintln!("panic: {info}");
        }
    }));
    let args = parse_args();
    let code = match args.family.as_str() {
        "vq" => family_vq(&args),
        "layout" => family_layout(&args),
        "life" => family_life(&args),
        "mmio" => family_mmio(&args),
        "cfg" => family_cfg(&args),
        "pci" => family_pci(&args),
        "console" => family_generic(&args, "console", |a| scen_console::all_params(a.tier == "thorough", a.seed), |v| scen_console::ConParams::from_json(v), |p| p.to_json(), |p, sc| scen_console::run(p, sc)),
        "net" => family_generic(&args, "net", |a| scen_net::all_params(a.tier == "thorough", a.seed), |v| scen_net::NetParams::from_json(v), |p| p.to_json(), |p, sc| scen_net::run(p, sc)),
        "vsock" => family_generic(&args, "vsock", |a| scen_vsock::all_params(a.extra.first().map(|s| s.as_str()).unwrap_or("random"), a.tier == "thorough", a.seed), |v| scen_vsock::VsParams::from_json(v), |p| p.to_json(), |p, sc| scen_vsock::run(p, sc)),
        "evq" => family_generic(&args, "evq", |a| scen_evq::all_params(a.tier == "thorough", a.seed), |v| scen_evq::EvqParams::from_json(v), |p| p.to_json(), |p, sc| scen_evq::run(p, sc)),
        "cmd" => family_generic(&args, "cmd", |a| scen_cmd::all_params(a.extra.first().map(|s| s.as_str()).unwrap_or("main"), a.tier == "thorough", a.seed), |v| scen_cmd::CmdParams::from_json(v), |p| p.to_json(), |p, sc| scen_cmd::run(p, sc)),
        "adv" => family_generic(&args, "adv", |a| scen_adv::all_params(a.extra.first().map(|s| s.as_str()).unwrap_or("adv"), a.tier == "thorough", a.seed), |v| scen_adv::AdvParams::from_json(v), |p| p.to_json(), |p, sc| scen_adv::run(p, sc)),
        "blk" => family_generic(&args, "blk", |a| scen_blk::all_params(a.tier == "thorough", a.seed), |v| scen_blk::BlkParams::from_json(v), |p| p.to_json(), |p, sc| scen_blk::run(p, sc)),
        f => {
            eprintln!("unknown family {f}");
            2
        }
    };
    std::process::exit(code);
}

fn family_vq(args: &Args) -> i32 {
    use scen_vq::*;
    let mut jobs: Vec<VqParams> = vec![];
    if let Some(r) = &args.replay {
        let v: Value = serde_json::from_str(&std::fs::read_to_string(r).expect("replay file")).expect("json");
        jobs.push(VqParams::from_json(&v["params"]));
    } else {
        let thorough = args.tier == "thorough";
        let mode = args.extra.first().map(|s| s.as_str()).unwrap_or("random").to_string();
        let mut seed = args.seed.wrapping_mul(1_000_003);
        if mode == "wrap" {
            for (n, ind, ev) in [(2usize, false, false), (4, false, true), (4, true, false), (1, false, false)] {
                seed += 1;
                jobs.push(VqParams { n, indirect: ind, event_idx: ev, ap: false, legacy: false,
                                     ops: if thorough { 280_000 } else { 150_000 }, seed, mode: "wrap".into() });
            }
        } else if mode == "notify" {
            let reps = if thorough { 6 } else { 1 };
            for _ in 0..reps {
                for n in [1usize, 2, 4, 8, 16] {
                    for ev in [true, false] {
                        for ind in [false, true] {
                            seed += 1;
                            jobs.push(VqParams { n, indirect: ind, event_idx: ev, ap: false, legacy: false, ops: 1500, seed, mode: "notify".into() });
                        }
                    }
                }
            }
        } else {
            let sizes: &[usize] = if thorough { &anyq::SIZES } else { &[1, 2, 4, 8, 16, 64, 256, 1024, 32768] };
            let reps = if thorough { 2 } else { 1 };
            for _ in 0..reps {
                for &n in sizes {
                    for flags in 0..8u32 {
                        seed += 1;
                        let ops = if n <= 16 { 600 } else { 300 } * if thorough { 2 } else { 1 };
                        jobs.push(VqParams { n, indirect: flags & 1 != 0, event_idx: flags & 2 != 0, ap: flags & 4 != 0,
                                             legacy: (seed % 3) == 0, ops, seed, mode: mode.clone() });
                    }
                }
            }
        }
    }
    let out = Arc::new(out::Out::create(&args.out));
    let index: Vec<Value> = jobs.iter().enumerate().map(|(k, p)| json!({"sc": format!("vq-{k}"), "params": p.to_json()})).collect();
    let res = run_parallel(jobs, |p, k| { let o = run(p, &format!("vq-{k}")); (o.lines, o.summary) }, out.clone());
    let idx = json!({"family":"vq","scenarios":index,"summaries":res,"events":out.events.load(Ordering::Relaxed)});
    std::fs::write(format!("{}.index.json", args.out), serde_json::to_string(&idx).unwrap()).unwrap();
    0
}

fn family_layout(args: &Args) -> i32 {
    use scen_layout::*;
    let jobs: Vec<LayoutParams> = if let Some(r) = &args.replay {
        let v: Value = serde_json::from_str(&std::fs::read_to_string(r).expect("replay file")).expect("json");
        vec![LayoutParams::from_json(&v["params"])]
    } else {
        all_params(args.tier == "thorough")
    };
    let out = Arc::new(out::Out::create(&args.out));
    let index: Vec<Value> = jobs.iter().enumerate().map(|(k, p)| json!({"sc": format!("layout-{k}"), "params": p.to_json()})).collect();
    let res = run_parallel(jobs, |p, k| run(p, &format!("layout-{k}")), out.clone());
    let idx = json!({"family":"layout","scenarios":index,"summaries":res,"events":out.events.load(Ordering::Relaxed)});
    std::fs::write(format!("{}.index.json", args.out), serde_json::to_string(&idx).unwrap()).unwrap();
    0
}

fn family_life(args: &Args) -> i32 {
    use scen_life::*;
    let jobs: Vec<LifeParams> = if let Some(r) = &args.replay {
        let v: Value = serde_json::from_str(&std::fs::read_to_string(r).expect("replay file")).expect("json");
        vec![LifeParams::from_json(&v["params"])]
    } else {
        all_params(args.tier == "thorough", args.seed)
    };
    let out = Arc::new(out::Out::create(&args.out));
    let outq = Arc::new(out::Out::create(&format!("{}.q.ndjson", args.out)));
    let index: Vec<Value> = jobs.iter().enumerate().map(|(k, p)| json!({"sc": format!("life-{k}"), "params": p.to_json()})).collect();
    let outm = Arc::new(out::Out::create(&format!("{}.m.ndjson", args.out)));
    let res = run_parallel_multi(jobs, |p, k| run(p, &format!("life-{k}")), vec![out.clone(), outq.clone(), outm.clone()]);
    let idx = json!({"family":"life","scenarios":index,"summaries":res,"events":out.events.load(Ordering::Relaxed),
                     "qevents":outq.events.load(Ordering::Relaxed)});
    std::fs::write(format!("{}.index.json", args.out), serde_json::to_string(&idx).unwrap()).unwrap();
    0
}

fn family_mmio(args: &Args) -> i32 {
    use scen_mmio::*;
    let jobs: Vec<MmioParams> = if let Some(r) = &args.replay {
        let v: Value = serde_json::from_str(&std::fs::read_to_string(r).expect("replay file")).expect("json");
        vec![MmioParams::from_json(&v["params"])]
    } else {
        all_params(args.tier == "thorough", args.seed)
    };
    let out = Arc::new(out::Out::create(&args.out));
    let index: Vec<Value> = jobs.iter().enumerate().map(|(k, p)| json!({"sc": format!("mmio-{k}"), "params": p.to_json()})).collect();
    let res = run_parallel(jobs, |p, k| run(p, &format!("mmio-{k}")), out.clone());
    let idx = json!({"family":"mmio","scenarios":index,"summaries":res,"events":out.events.load(Ordering::Relaxed)});
    std::fs::write(format!("{}.index.json", args.out), serde_json::to_string(&idx).unwrap()).unwrap();
    0
}

fn family_cfg(args: &Args) -> i32 {
    use scen_cfg::*;
    let jobs: Vec<CfgParams> = if let Some(r) = &args.replay {
        let v: Value = serde_json::from_str(&std::fs::read_to_string(r).expect("replay file")).expect("json");
        vec![CfgParams::from_json(&v["params"])]
    } else {
        all_params(args.tier == "thorough")
    };
    let out = Arc::new(out::Out::create(&args.out));
    let index: Vec<Value> = jobs.iter().enumerate().map(|(k, p)| json!({"sc": format!("cfg-{k}"), "params": p.to_json()})).collect();
    let res = run_parallel(jobs, |p, k| run(p, &format!("cfg-{k}")), out.clone());
    let idx = json!({"family":"cfg","scenarios":index,"summaries":res,"events":out.events.load(Ordering::Relaxed)});
    std::fs::write(format!("{}.index.json", args.out), serde_json::to_string(&idx).unwrap()).unwrap();
    0
}

fn family_pci(args: &Args) -> i32 {
    use scen_pci::*;
    let mode = args.extra.first().map(|s| s.as_str()).unwrap_or("new").to_string();
    let jobs: Vec<PciParams> = if let Some(r) = &args.replay {
        let v: Value = serde_json::from_str(&std::fs::read_to_string(r).expect("replay file")).expect("json");
        vec![PciParams::from_json(&v["params"])]
    } else {
        all_params(&mode, args.tier == "thorough", args.seed)
    };
    let out = Arc::new(out::Out::create(&args.out));
    let index: Vec<Value> = jobs.iter().enumerate().map(|(k, p)| json!({"sc": format!("pci{}-{k}", p.mode), "params": p.to_json()})).collect();
    let res = run_parallel(jobs, |p, k| run(p, &format!("pci{}-{k}", p.mode)), out.clone());
    let idx = json!({"family":"pci","scenarios":index,"summaries":res,"events":out.events.load(Ordering::Relaxed)});
    std::fs::write(format!("{}.index.json", args.out), serde_json::to_string(&idx).unwrap()).unwrap();
    0
}

/// Families whose scenarios produce [device-level trace, queue-level trace].
fn family_generic<P: Send + Sync + 'static>(
    args: &Args,
    name: &'static str,
    all: impl Fn(&Args) -> Vec<P>,
    from_json: impl Fn(&Value) -> P,
    to_json: impl Fn(&P) -> Value,
    run: impl Fn(&P, &str) -> (Vec<Vec<String>>, Value) + Send + Sync + 'static,
) -> i32 {
    let jobs: Vec<P> = if let Some(r) = &args.replay {
        let v: Value = serde_json::from_str(&std::fs::read_to_string(r).expect("replay file")).expect("json");
        vec![from_json(&v["params"])]
    } else {
        all(args)
    };
    let out = Arc::new(out::Out::create(&args.out));
    let outq = Arc::new(out::Out::create(&format!("{}.q.ndjson", args.out)));
    let index: Vec<Value> = jobs.iter().enumerate().map(|(k, p)| json!({"sc": format!("{name}-{k}"), "params": to_json(p)})).collect();
    let res = run_parallel_multi(jobs, move |p, k| run(p, &format!("{name}-{k}")), vec![out.clone(), outq.clone()]);
    let idx = json!({"family":name,"scenarios":index,"summaries":res,"events":out.events.load(Ordering::Relaxed),"qevents":outq.events.load(Ordering::Relaxed)});
    std::fs::write(format!("{}.index.json", args.out), serde_json::to_string(&idx).unwrap()).unwrap();
    // a panic of the harness itself (not of the code under test) is a tool failure
    let hp: Vec<String> = idx["summaries"].as_array().unwrap().iter().enumerate()
        .flat_map(|(k, s)| s["harness_panics"].as_array().cloned().unwrap_or_default().into_iter().map(move |x| format!("{name}-{k}: {x}")))
        .collect();
    if !hp.is_empty() {
        for l in hp.iter().take(20) {
            eprintln!("HARNESS PANIC {l}");
        }
        return 3;
    }
    0
}
