//! Device engine: schedules a device personality (block, console, net, ...) on top of the
//! reference virtqueue device.  The personality decodes requests, logs *decoded* events and
//! produces responses; the engine decides *when* the device runs (servicing policy) and in which
//! order taken chains complete.

use crate::core::*;
use crate::hooks::{self, Point, Stuck};
use crate::transport;
use rand::rngs::SmallRng;
use rand::{Rng, SeedableRng};
use std::cell::RefCell;
use std::collections::BTreeSet;

#[derive(Clone, Copy, Debug, PartialEq)]
pub enum Policy {
    /// serve a queue only after it was notified
    NotifyOnly,
    /// poll the available rings whenever the device gets to run
    Poll,
    /// like NotifyOnly, but only after the driver has spun this many times
    Late(u32),
}

pub struct Response {
    /// bytes for the device-writable part (scattered over it)
    pub data: Vec<u8>,
    /// used length to report (default: bytes written)
    pub used_len: Option<u32>,
}

pub trait Personality: std::any::Any {
    fn as_any_mut(&mut self) -> &mut dyn std::any::Any;
    /// A chain was taken from queue `q`; `readable` is its device-readable bytes. Return the
    /// response, or None to keep the chain (the personality completes it later via `idle`).
    fn handle(&mut self, w: &mut World, q: u16, chain: &Chain, readable: &[u8]) -> Option<Response>;
    /// Called when the device runs and has nothing to take: spontaneous device activity (incoming
    /// packets, console input, events). Returns true if it did something.
    fn idle(&mut self, _w: &mut World, _eng: &mut EngineCore) -> bool {
        false
    }
    /// Queues the engine should take chains from by itself (others are left to the personality).
    fn request_queues(&self) -> Vec<u16>;
}

/// State the personality may use from `idle`.
pub struct EngineCore {
    pub rng: SmallRng,
    pub indirect_ok: bool,
    /// chains taken and answered but not yet completed: (queue, chain, response)
    pub held: Vec<(u16, Chain, Response)>,
    /// complete immediately in take order (false: the scenario completes explicitly, any order)
    pub complete_in_order: bool,
    /// if set, only chains of this queue are held back when `complete_in_order` is false
    pub hold_only: Option<u16>,
    /// held chains complete by themselves, in random order, whenever the device runs
    pub auto_ooo: bool,
}

pub struct Engine {
    pub core: EngineCore,
    pub policy: Policy,
    pub notified: BTreeSet<u16>,
    pub spins: u32,
    pub pers: Box<dyn Personality>,
    pub served: usize,
    /// probability of serving right inside the notify call
    pub p_serve_in_notify: f64,
}

thread_local! {
    pub static ENGINE: RefCell<Option<Engine>> = const { RefCell::new(None) };
}

pub fn with_engine<R>(f: impl FnOnce(&mut Engine) -> R) -> R {
    ENGINE.with(|e| f(e.borrow_mut().as_mut().expect("engine installed")))
}

impl EngineCore {
    /// Write the response of a held chain and publish it in the used ring.
    pub fn finish(w: &mut World, q: u16, chain: &Chain, resp: &Response) {
        let written = w.chain_write(q, chain, &resp.data);
        let wd = w.chain_writable_digest(chain);
        w.dev_complete(q, chain.head, resp.used_len.unwrap_or(written as u32), Some(wd));
        w.dev(serde_json::json!({"e":"DevDone","q":q,"tok":chain.head}));
    }
}

impl Engine {
    pub fn pers_mut<P: Personality>(&mut self) -> &mut P {
        self.pers.as_any_mut().downcast_mut::<P>().expect("personality type")
    }
    /// Take and answer everything visible on queue q. Returns how many chains were taken.
    pub fn serve_queue(&mut self, q: u16) -> usize {
        let mut n = 0;
        loop {
            let c = with_world(|w| w.dev_take(q, self.core.indirect_ok));
            let Some(chain) = c else { break };
            n += 1;
            let readable = with_world(|w| w.chain_read(q, &chain));
            let r = with_world(|w| self.pers.handle(w, q, &chain, &readable));
            if let Some(resp) = r {
                if self.core.complete_in_order || self.core.hold_only.map(|h| h != q).unwrap_or(false) {
                    with_world(|w| EngineCore::finish(w, q, &chain, &resp));
                } else {
                    self.core.held.push((q, chain, resp));
                }
            }
            self.served += 1;
        }
        n
    }
    /// Complete one held chain (any of them).
    pub fn complete_any(&mut self) -> bool {
        if self.core.held.is_empty() {
            return false;
        }
        let k = self.core.rng.gen_range(0..self.core.held.len());
        let (q, chain, resp) = self.core.held.remove(k);
        with_world(|w| EngineCore::finish(w, q, &chain, &resp));
        true
    }
    pub fn complete_all(&mut self) {
        while self.complete_any() {}
    }
    /// The device gets a chance to run (spin point, after a call, inside notify).
    pub fn run(&mut self, in_spin: bool) -> bool {
        let mut did = false;
        let qs = self.pers.request_queues();
        let allowed: Vec<u16> = match self.policy {
            Policy::Poll => qs.clone(),
            Policy::NotifyOnly => qs.iter().copied().filter(|q| self.notified.contains(q)).collect(),
            Policy::Late(k) => {
                if in_spin && self.spins >= k { qs.iter().copied().filter(|q| self.notified.contains(q)).collect() } else { vec![] }
            }
        };
        for q in allowed {
            if self.serve_queue(q) > 0 {
                did = true;
            }
            self.notified.remove(&q);
        }
        if (self.core.complete_in_order || self.core.auto_ooo) && !self.core.held.is_empty() {
            self.complete_all();
            did = true;
        }
        let idle = with_world(|w| self.pers.idle(w, &mut self.core));
        did || idle
    }
}

/// How late a "late" device is, for families that want a particular value (no effect on the
/// other policies).
pub fn set_lateness(k: u32) {
    with_engine(|e| {
        if matches!(e.policy, Policy::Late(_)) {
            e.policy = Policy::Late(k);
        }
    });
}

pub fn install(pers: Box<dyn Personality>, policy: Policy, seed: u64, indirect_ok: bool) {
    // how late a "late" device is varies: from almost immediately to after the driver has gone
    // round its loop many times (a driver that queues as much as it can before the device moves)
    let policy = match policy {
        Policy::Late(_) => Policy::Late([1, 5, 14, 40][(seed as usize / 7) % 4]),
        p => p,
    };
    let eng = Engine {
        core: EngineCore { rng: SmallRng::seed_from_u64(seed), indirect_ok, held: vec![], complete_in_order: true, hold_only: None, auto_ooo: false },
        policy,
        notified: BTreeSet::new(),
        spins: 0,
        pers,
        served: 0,
        p_serve_in_notify: 0.5,
    };
    ENGINE.with(|e| *e.borrow_mut() = Some(eng));
    transport::set_notify_cb(Some(Box::new(|q| {
        with_engine(|e| {
            e.notified.insert(q);
            let p = e.p_serve_in_notify;
            if e.policy != Policy::Poll && !matches!(e.policy, Policy::Late(_)) && e.core.rng.gen_bool(p) {
                e.run(false);
            }
        });
    })));
    hooks::install(Box::new(|pt| match pt {
        Point::Spin(site, q) => {
            let stuck = with_engine(|e| {
                e.spins += 1;
                let did = e.run(true);
                if did {
                    e.spins = 0;
                }
                // the driver keeps spinning although the device has nothing it could ever do
                !did && e.spins > 64
            });
            if stuck {
                with_world(|w| w.qev(q, serde_json::json!({"e":"Stuck","site":site})));
                with_world(|w| w.dev(serde_json::json!({"e":"Stuck","site":site,"q":q})));
                std::panic::panic_any(Stuck(site));
            }
        }
        Point::After(_) | Point::Store(_) => {}
    }));
}

pub fn uninstall() {
    hooks::uninstall();
    transport::set_notify_cb(None);
    ENGINE.with(|e| *e.borrow_mut() = None);
}
