//! Family `vsock` (C17, C18, C19): the socket connection manager against a scripted peer.

use crate::core::*;
use crate::engine::{self, EngineCore, Personality, Response, with_engine};
use crate::out::fnv64;
use crate::scen_blk::policy_of;
use crate::scen_life::queue_segments;
use crate::tmake;
use rand::rngs::SmallRng;
use rand::{Rng, SeedableRng};
use serde_json::{Value, json};
use std::collections::{BTreeMap, VecDeque};
use std::panic::{AssertUnwindSafe, catch_unwind};
use virtio_drivers::device::socket::{DisconnectReason, VirtIOSocket, VsockAddr, VsockConnectionManager, VsockEvent, VsockEventType};
use virtio_drivers::transport::Transport;

#[derive(Clone, Debug)]
pub struct VsParams {
    pub transport: String,
    pub legacy: bool,
    pub offered: u64,
    pub policy: String,
    pub cap: u32,
    pub mode: String, // random | txwrap | rxwrap
    pub ops: usize,
    pub seed: u64,
}
impl VsParams {
    pub fn to_json(&self) -> Value {
        json!({"family":"vsock","transport":self.transport,"legacy":self.legacy,"offered":hex(self.offered),"policy":self.policy,"cap":self.cap,"mode":self.mode,"ops":self.ops,"seed":self.seed})
    }
    pub fn from_json(v: &Value) -> Self {
        VsParams {
            transport: v["transport"].as_str().unwrap().into(),
            legacy: v["legacy"].as_bool().unwrap(),
            offered: u64::from_str_radix(v["offered"].as_str().unwrap().trim_start_matches("0x"), 16).unwrap(),
            policy: v["policy"].as_str().unwrap().into(),
            cap: v["cap"].as_u64().unwrap() as u32,
            mode: v["mode"].as_str().unwrap().into(),
            ops: v["ops"].as_u64().unwrap() as usize,
            seed: v["seed"].as_u64().unwrap(),
        }
    }
}

pub const GUEST_CID: u64 = 42;
pub const HDR: usize = 44;

#[derive(Clone, Debug, Default)]
pub struct Pkt {
    pub src_cid: u64,
    pub dst_cid: u64,
    pub src_port: u32,
    pub dst_port: u32,
    pub len: u32,
    pub ty: u16,
    pub op: u16,
    pub flags: u32,
    pub buf_alloc: u32,
    pub fwd_cnt: u32,
    pub body: Vec<u8>,
    /// used length to report (default header + body)
    pub used_len: Option<u32>,
    /// peer packet whose credit fields (and, for data, body) are filled in when it is delivered
    pub dynamic: bool,
    pub want: usize,
}
impl Pkt {
    pub fn encode(&self) -> Vec<u8> {
        let mut b = Vec::with_capacity(HDR + self.body.len());
        b.extend(self.src_cid.to_le_bytes());
        b.extend(self.dst_cid.to_le_bytes());
        b.extend(self.src_port.to_le_bytes());
        b.extend(self.dst_port.to_le_bytes());
        b.extend(self.len.to_le_bytes());
        b.extend(self.ty.to_le_bytes());
        b.extend(self.op.to_le_bytes());
        b.extend(self.flags.to_le_bytes());
        b.extend(self.buf_alloc.to_le_bytes());
        b.extend(self.fwd_cnt.to_le_bytes());
        b.extend(&self.body);
        b
    }
    pub fn decode(b: &[u8]) -> Option<Pkt> {
        if b.len() < HDR {
            return None;
        }
        Some(Pkt {
            src_cid: u64::from_le_bytes(b[0..8].try_into().unwrap()),
            dst_cid: u64::from_le_bytes(b[8..16].try_into().unwrap()),
            src_port: u32::from_le_bytes(b[16..20].try_into().unwrap()),
            dst_port: u32::from_le_bytes(b[20..24].try_into().unwrap()),
            len: u32::from_le_bytes(b[24..28].try_into().unwrap()),
            ty: u16::from_le_bytes(b[28..30].try_into().unwrap()),
            op: u16::from_le_bytes(b[30..32].try_into().unwrap()),
            flags: u32::from_le_bytes(b[32..36].try_into().unwrap()),
            buf_alloc: u32::from_le_bytes(b[36..40].try_into().unwrap()),
            fwd_cnt: u32::from_le_bytes(b[40..44].try_into().unwrap()),
            body: b[HDR..].to_vec(),
            used_len: None,
            dynamic: false,
            want: 0,
        })
    }
    /// JSON for the trace; cids/ports are small in the scenarios. `big`: do not digest the body.
    pub fn json(&self, e: &str, big: bool) -> Value {
        let affine = self.body.windows(2).all(|w| w[1] == w[0].wrapping_add(7));
        json!({"e":e,"src_cid":self.src_cid,"dst_cid":self.dst_cid,"src_port":self.src_port,"dst_port":self.dst_port,
               "len":self.len,"type":self.ty,"op":self.op,"flags":self.flags,"bal":limbs(self.buf_alloc as u64,2),"fcl":limbs(self.fwd_cnt as u64,2),
               "body_len":self.body.len(),"dg":if big { String::new() } else { fnv64(&self.body) },
               "first":self.body.first().copied().map(|b| b as i64).unwrap_or(-1),"affine":affine,
               "used_len":self.used_len.unwrap_or((HDR + self.body.len()) as u32)})
    }
}

/// What the peer knows about one connection (its own side of both credit windows).
#[derive(Clone, Debug, Default)]
pub struct PeerConn {
    /// bytes the peer has sent to this tuple (over all incarnations: the stream just continues)
    pub sent: u64,
    /// value of `sent` when the current connection started
    pub credit_base: u64,
    /// driver's advertised buffer allocation / forward count, from the last packet seen
    pub drv_buf_alloc: u32,
    pub drv_fwd_cnt: u32,
    /// the peer's own receive buffer and how much of what it received it has consumed
    pub cap: u32,
    pub received: u32,
    pub consumed: u32,
}

pub struct VsPers {
    pub incoming: VecDeque<Pkt>,
    pub rx_taken: Vec<Chain>,
    pub peers: BTreeMap<(u64, u32, u32), PeerConn>,
    pub big: bool,
}
impl Personality for VsPers {
    fn as_any_mut(&mut self) -> &mut dyn std::any::Any {
        self
    }
    fn request_queues(&self) -> Vec<u16> {
        vec![1]
    }
    fn handle(&mut self, w: &mut World, _q: u16, chain: &Chain, readable: &[u8]) -> Option<Response> {
        match Pkt::decode(readable) {
            Some(p) => {
                w.dev(p.json("DevTx", self.big));
                // the peer learns the driver's credit from every packet
                let k = (p.dst_cid, p.dst_port, p.src_port);
                if p.op == 1 || p.op == 2 || p.op == 3 {
                    // a connection starts or ends: the peer forgets its counters for this tuple
                    let (cap, sent) = self.peers.get(&k).map(|x| (x.cap, x.sent)).unwrap_or((0, 0));
                    self.peers.insert(k, PeerConn { cap, sent, credit_base: sent, ..Default::default() });
                }
                let pc = self.peers.entry(k).or_default();
                pc.drv_buf_alloc = p.buf_alloc;
                pc.drv_fwd_cnt = p.fwd_cnt;
                if p.op == 5 {
                    pc.received = pc.received.wrapping_add(p.body.len() as u32);
                }
            }
            None => w.dev(json!({"e":"DevTx","malformed":true,"len":readable.len()})),
        }
        let _ = chain;
        Some(Response { data: vec![], used_len: Some(0) })
    }
    fn idle(&mut self, w: &mut World, core: &mut EngineCore) -> bool {
        while let Some(c) = w.dev_take(0, core.indirect_ok) {
            self.rx_taken.push(c);
        }
        let mut did = false;
        while !self.incoming.is_empty() && !self.rx_taken.is_empty() {
            let mut p = self.incoming.pop_front().unwrap();
            if p.dynamic {
                // an honest peer: current credit information, data within the credit it was given
                let k = (p.src_cid, p.src_port, p.dst_port);
                let pc = self.peers.entry(k).or_default();
                p.buf_alloc = pc.cap;
                p.fwd_cnt = pc.consumed;
                if p.op == 5 {
                    let in_flight = ((pc.sent - pc.credit_base) as u32).wrapping_sub(pc.drv_fwd_cnt);
                    let free = pc.drv_buf_alloc.saturating_sub(in_flight);
                    let n = std::cmp::min(std::cmp::min(free as usize, 468), p.want);
                    p.body = (0..n as u64).map(|i| stream_byte(pc.sent + i)).collect();
                    p.len = n as u32;
                    pc.sent += n as u64;
                }
            }
            let k = core.rng.gen_range(0..self.rx_taken.len());
            let chain = self.rx_taken.remove(k);
            w.dev(p.json("PeerPkt", self.big));
            let data = p.encode();
            EngineCore::finish(w, 0, &chain, &Response { data, used_len: p.used_len });
            did = true;
        }
        if did {
            tmake::raise_irq();
        }
        did
    }
}

fn dev(v: Value) {
    with_world(|w| w.dev(v));
}
fn res_unit(r: virtio_drivers::Result<()>) {
    match r {
        Ok(()) => dev(json!({"e":"Ret","ok":true})),
        Err(e) => dev(json!({"e":"Ret","ok":false,"err":err_name(e)})),
    }
}
fn err_name(e: virtio_drivers::Error) -> String {
    match e {
        virtio_drivers::Error::SocketDeviceError(s) => format!("{:?}", s).split('(').next().unwrap().to_string(),
        other => format!("{:?}", other),
    }
}
fn event_json(ev: &Option<VsockEvent>) -> Value {
    match ev {
        None => json!({"e":"Ret","ok":true,"ev":"none"}),
        Some(e) => {
            let (name, len, reason) = match &e.event_type {
                VsockEventType::ConnectionRequest => ("ConnectionRequest", 0, ""),
                VsockEventType::Connected => ("Connected", 0, ""),
                VsockEventType::Disconnected { reason } => ("Disconnected", 0, if *reason == DisconnectReason::Reset { "Reset" } else { "Shutdown" }),
                VsockEventType::Received { length } => ("Received", *length, ""),
                VsockEventType::CreditRequest => ("CreditRequest", 0, ""),
                VsockEventType::CreditUpdate => ("CreditUpdate", 0, ""),
            };
            json!({"e":"Ret","ok":true,"ev":name,"len":len,"reason":reason,
                   "src_cid":e.source.cid,"src_port":e.source.port,"dst_cid":e.destination.cid,"dst_port":e.destination.port,
                   "bal":limbs(e.buffer_status.buffer_allocation as u64,2),"fcl":limbs(e.buffer_status.forward_count as u64,2)})
        }
    }
}
/// Bytes as maximal runs [first, len] in which each byte is the previous one plus 7 (mod 256).
pub fn runs(b: &[u8]) -> Vec<Value> {
    let mut v = vec![];
    let mut i = 0;
    while i < b.len() {
        let mut j = i + 1;
        while j < b.len() && b[j] == b[j - 1].wrapping_add(7) {
            j += 1;
        }
        v.push(json!([b[i], j - i]));
        i = j;
    }
    v
}
pub fn stream_byte(p: u64) -> u8 {
    ((p * 7 + 3) % 256) as u8
}

const PEERS: [(u64, u32); 3] = [(2, 1000), (3, 1000), (2, 1001)];
const LPORTS: [u32; 4] = [80, 81, 5000, 5001];

fn drive<T: Transport>(t: T, p: &VsParams, rng: &mut SmallRng) -> String {
    dev(json!({"e":"Call","op":"new"}));
    let sock = match VirtIOSocket::<LedgerHal, T>::new(t) {
        Ok(s) => s,
        Err(e) => return format!("{:?}", e),
    };
    let mut m = VsockConnectionManager::new_with_capacity(sock, p.cap);
    dev(json!({"e":"Ret","ok":true}));
    // the harness's own idea of which connections exist (only to choose sensible operations)
    let mut known: Vec<((u64, u32), u32)> = vec![];
    for _ in 0..p.ops {
        let roll: u32 = rng.gen_range(0..100);
        let peer = PEERS[rng.gen_range(0..PEERS.len())];
        let lport = LPORTS[rng.gen_range(0..LPORTS.len())];
        let (tgt_peer, tgt_lport) = if !known.is_empty() && rng.gen_bool(0.8) { known[rng.gen_range(0..known.len())] } else { (peer, lport) };
        let addr = VsockAddr { cid: tgt_peer.0, port: tgt_peer.1 };
        let key = (tgt_peer.0, tgt_peer.1, tgt_lport);
        let callj = |op: &str| json!({"e":"Call","op":op,"cid":tgt_peer.0,"port":tgt_peer.1,"lport":tgt_lport});
        match roll {
            0..=3 => {
                dev(json!({"e":"Call","op":"listen","lport":lport}));
                m.listen(lport);
                dev(json!({"e":"Ret","ok":true}));
            }
            4..=5 => {
                dev(json!({"e":"Call","op":"unlisten","lport":lport}));
                m.unlisten(lport);
                dev(json!({"e":"Ret","ok":true}));
            }
            6..=12 => {
                dev(callj("connect"));
                let r = m.connect(addr, tgt_lport);
                if r.is_ok() {
                    known.push((tgt_peer, tgt_lport));
                }
                res_unit(r);
            }
            13..=27 => {
                let n = match rng.gen_range(0..6) { 0 => 0, 1 => 1, 2 => 300, _ => rng.gen_range(1..200) };
                let mut data = vec![0u8; n];
                rng.fill(&mut data[..]);
                let mut c = callj("send");
                c["n"] = json!(n);
                c["dg"] = json!(fnv64(&data));
                dev(c);
                res_unit(m.send(addr, tgt_lport, &data));
            }
            28..=42 => {
                // read sizes: arbitrary ones, and ones tied to what is buffered (all of it, one less,
                // exactly half, one more)
                let avail = m.recv_buffer_available_bytes(addr, tgt_lport).unwrap_or(0);
                let n = match rng.gen_range(0..9) {
                    0 => 0,
                    1 => 1,
                    2 => 5000,
                    3 => avail,
                    4 => avail / 2,
                    5 => avail.saturating_sub(1),
                    6 => avail + 1,
                    _ => rng.gen_range(1..300),
                };
                let mut buf = vec![0u8; n];
                let mut c = callj("recv");
                c["n"] = json!(n);
                dev(c);
                match m.recv(addr, tgt_lport, &mut buf) {
                    Ok(r) => {
                        dev(json!({"e":"Ret","ok":true,"n":r,"runs":runs(&buf[..r])}));
                    }
                    Err(e) => dev(json!({"e":"Ret","ok":false,"err":err_name(e)})),
                }
            }
            43..=62 => {
                with_engine(|e| {
                    e.run(false);
                });
                dev(json!({"e":"Call","op":"poll"}));
                match m.poll() {
                    Ok(ev) => {
                        if let Some(e) = &ev {
                            match e.event_type {
                                VsockEventType::ConnectionRequest => known.push(((e.source.cid, e.source.port), e.destination.port)),
                                _ => {}
                            }
                        }
                        dev(event_json(&ev));
                    }
                    Err(e) => dev(json!({"e":"Ret","ok":false,"err":err_name(e)})),
                }
            }
            63..=65 => {
                dev(callj("shutdown"));
                res_unit(m.shutdown(addr, tgt_lport));
            }
            66..=67 => {
                dev(callj("force_close"));
                let r = m.force_close(addr, tgt_lport);
                if r.is_ok() {
                    known.retain(|k| *k != (tgt_peer, tgt_lport));
                }
                res_unit(r);
            }
            68..=70 => {
                dev(callj("update_credit"));
                res_unit(m.update_credit(addr, tgt_lport));
            }
            71..=73 => {
                dev(callj("available"));
                match m.recv_buffer_available_bytes(addr, tgt_lport) {
                    Ok(n) => dev(json!({"e":"Ret","ok":true,"n":n})),
                    Err(e) => dev(json!({"e":"Ret","ok":false,"err":err_name(e)})),
                }
                dev(callj("established"));
                match m.is_connection_established(addr, tgt_lport) {
                    Ok(b) => dev(json!({"e":"Ret","ok":true,"b":b})),
                    Err(e) => dev(json!({"e":"Ret","ok":false,"err":err_name(e)})),
                }
            }
            _ => {
                // ---- the peer does something
                let (pc_cap, pc) = with_engine(|e| {
                    let ps = e.pers_mut::<VsPers>();
                    let pc = ps.peers.entry(key).or_default();
                    if pc.cap == 0 {
                        pc.cap = [16u32, 64, 256, 4096][(key.1 as usize + key.2 as usize) % 4];
                    }
                    // the peer application consumes some of what it received
                    let pending = pc.received.wrapping_sub(pc.consumed);
                    pc.consumed = pc.consumed.wrapping_add(if pending > 0 { core_rand(pending) } else { 0 });
                    (pc.cap, pc.clone())
                });
                let _ = (pc_cap, &pc);
                let mut pk = Pkt { src_cid: tgt_peer.0, src_port: tgt_peer.1, dst_cid: GUEST_CID, dst_port: tgt_lport, ty: 1, dynamic: true, ..Default::default() };
                match rng.gen_range(0..20) {
                    0 | 1 => {
                        // a connection request: usually for a tuple the peer is not already talking
                        // on, sometimes a duplicate for an existing connection
                        if known.contains(&(tgt_peer, tgt_lport)) {
                            pk.op = if rng.gen_bool(0.5) { 1 } else { 6 };
                        } else {
                            pk.op = 1;
                            with_engine(|e| {
                                let ps = e.pers_mut::<VsPers>();
                                let (cap, sent) = ps.peers.get(&key).map(|x| (x.cap, x.sent)).unwrap_or((0, 0));
                                ps.peers.insert(key, PeerConn { cap, sent, credit_base: sent, ..Default::default() });
                            });
                        }
                    }
                    2 | 3 => pk.op = 2,
                    4 => pk.op = 3,
                    5 => { pk.op = 4; pk.flags = 3; }
                    6..=11 => {
                        pk.op = 5;
                        // (any length up to a packet that fills a receive buffer exactly: 512 - 44 bytes)
                        pk.want = match rng.gen_range(0..8) { 0 => 468, 1 => 467, 2 => 1000, _ => rng.gen_range(0..300) };
                    }
                    12 | 13 => pk.op = 6,
                    14 => pk.op = 7,
                    15 => pk.op = 0,
                    16 => pk.op = 9,
                    17 => pk.dst_cid = 77,
                    18 => { pk.op = 6; pk.len = 4; pk.body = vec![1, 2, 3, 4]; pk.dynamic = false; pk.buf_alloc = 64; }
                    _ => { pk.src_port = 4242; pk.op = 5; pk.body = vec![9; 10]; pk.len = 10; pk.dynamic = false; pk.buf_alloc = 64; }
                }
                with_engine(|e| {
                    e.pers_mut::<VsPers>().incoming.push_back(pk);
                    if e.core.rng.gen_bool(0.6) {
                        e.run(false);
                    }
                });
            }
        }
    }
    dev(json!({"e":"Drop"}));
    drop(m);
    "ok".into()
}

fn core_rand(max: u32) -> u32 {
    with_engine_rng(|r| r.gen_range(0..=max))
}
fn with_engine_rng<R>(f: impl FnOnce(&mut SmallRng) -> R) -> R {
    // called from inside with_engine: use a thread-local auxiliary rng instead
    thread_local! { static R: std::cell::RefCell<SmallRng> = std::cell::RefCell::new(SmallRng::seed_from_u64(99)); }
    R.with(|r| f(&mut r.borrow_mut()))
}

/// Real-width wrap of the transmit counters: > 4 GiB sent on one connection.
fn drive_txwrap<T: Transport>(t: T, _p: &VsParams, _rng: &mut SmallRng) -> String {
    dev(json!({"e":"Call","op":"new"}));
    let sock = match VirtIOSocket::<LedgerHal, T>::new(t) {
        Ok(s) => s,
        Err(e) => return format!("{:?}", e),
    };
    let mut m = VsockConnectionManager::new_with_capacity(sock, 4096);
    dev(json!({"e":"Ret","ok":true}));
    let peer = (2u64, 1000u32);
    let lport = 5000u32;
    let addr = VsockAddr { cid: peer.0, port: peer.1 };
    let callj = |op: &str| json!({"e":"Call","op":op,"cid":peer.0,"port":peer.1,"lport":lport});
    dev(callj("connect"));
    res_unit(m.connect(addr, lport));
    let chunk: usize = 96 << 20;
    let data = vec![0x5au8; chunk];
    let mut sent: u64 = 0;
    for round in 0..48u64 {
        // the peer has consumed everything so far and advertises a 2 GiB buffer
        let pk = Pkt { src_cid: peer.0, src_port: peer.1, dst_cid: GUEST_CID, dst_port: lport, ty: 1, op: if round == 0 { 2 } else { 6 },
                       buf_alloc: 0x8000_0000, fwd_cnt: sent as u32, ..Default::default() };
        with_engine(|e| {
            e.pers_mut::<VsPers>().incoming.push_back(pk);
            e.run(false);
        });
        dev(json!({"e":"Call","op":"poll"}));
        match m.poll() {
            Ok(ev) => dev(event_json(&ev)),
            Err(e) => dev(json!({"e":"Ret","ok":false,"err":err_name(e)})),
        }
        let mut c = callj("send");
        c["n"] = json!(chunk);
        c["dg"] = json!("");
        dev(c);
        let r = m.send(addr, lport, &data);
        if r.is_ok() {
            sent += chunk as u64;
        }
        res_unit(r);
    }
    dev(json!({"e":"Drop"}));
    drop(m);
    format!("ok sent={sent}")
}

/// Real-width wrap of the forward counter: > 4 GiB received and read on one connection.
fn drive_rxwrap<T: Transport>(t: T, _p: &VsParams, _rng: &mut SmallRng) -> String {
    const RXB: usize = (1 << 20) + 64;
    dev(json!({"e":"Call","op":"new"}));
    let sock = match VirtIOSocket::<LedgerHal, T, RXB>::new(t) {
        Ok(s) => s,
        Err(e) => return format!("{:?}", e),
    };
    let cap: u32 = 8 << 20;
    let mut m = VsockConnectionManager::new_with_capacity(sock, cap);
    dev(json!({"e":"Ret","ok":true}));
    let peer = (2u64, 1000u32);
    let lport = 80u32;
    let addr = VsockAddr { cid: peer.0, port: peer.1 };
    let callj = |op: &str| json!({"e":"Call","op":op,"cid":peer.0,"port":peer.1,"lport":lport});
    dev(json!({"e":"Call","op":"listen","lport":lport}));
    m.listen(lport);
    dev(json!({"e":"Ret","ok":true}));
    let push = |pk: Pkt| {
        with_engine(|e| {
            e.pers_mut::<VsPers>().incoming.push_back(pk);
            e.run(false);
        })
    };
    let base = Pkt { src_cid: peer.0, src_port: peer.1, dst_cid: GUEST_CID, dst_port: lport, ty: 1, buf_alloc: 65536, ..Default::default() };
    push(Pkt { op: 1, ..base.clone() });
    dev(json!({"e":"Call","op":"poll"}));
    match m.poll() {
        Ok(ev) => dev(event_json(&ev)),
        Err(e) => dev(json!({"e":"Ret","ok":false,"err":err_name(e)})),
    }
    let body_len: usize = 1 << 20;
    let mut pos: u64 = 0;
    let mut buf = vec![0u8; 4 << 20];
    let total: u64 = (4u64 << 30) + (64 << 20);
    while pos < total {
        // four packets of 1 MiB (within the 8 MiB credit), then the application reads them
        for _ in 0..4 {
            let body: Vec<u8> = (0..body_len as u64).map(|i| stream_byte(pos + i)).collect();
            pos += body_len as u64;
            push(Pkt { op: 5, len: body_len as u32, body, ..base.clone() });
            dev(json!({"e":"Call","op":"poll"}));
            match m.poll() {
                Ok(ev) => dev(event_json(&ev)),
                Err(e) => dev(json!({"e":"Ret","ok":false,"err":err_name(e)})),
            }
        }
        let mut c = callj("recv");
        c["n"] = json!(buf.len());
        dev(c);
        match m.recv(addr, lport, &mut buf) {
            Ok(r) => {
                dev(json!({"e":"Ret","ok":true,"n":r,"runs":runs(&buf[..r])}));
            }
            Err(e) => dev(json!({"e":"Ret","ok":false,"err":err_name(e)})),
        }
        // every now and then the driver tells the peer (so fwd_cnt is seen on the wire after the wrap)
        if (pos >> 20) % 256 == 0 {
            dev(callj("update_credit"));
            res_unit(m.update_credit(addr, lport));
        }
    }
    dev(callj("update_credit"));
    res_unit(m.update_credit(addr, lport));
    dev(json!({"e":"Drop"}));
    drop(m);
    format!("ok received={pos}")
}

pub fn run(p: &VsParams, sc: &str) -> (Vec<Vec<String>>, Value) {
    // every third scenario runs on a platform that maps buffers in place (no bounce copies)
    INPLACE_MODE.with(|m| m.set(p.seed % 3 == 0 && !adv_active()));
    reset_world();
    INPLACE_MODE.with(|m| m.set(false));
    let mut rng = SmallRng::seed_from_u64(p.seed);
    let big = p.mode != "random";
    engine::install(Box::new(VsPers { incoming: VecDeque::new(), rx_taken: vec![], peers: BTreeMap::new(), big }), policy_of(&p.policy), p.seed ^ 0x99, true);
    let mut cfg = crate::zoo::config_space("socket");
    cfg[0..8].copy_from_slice(&GUEST_CID.to_le_bytes());
    let t = tmake::make(&p.transport, "socket", p.offered, p.legacy, 32768, cfg);
    let cap = match p.mode.as_str() { "txwrap" => 4096, "rxwrap" => 8 << 20, _ => p.cap };
    with_world(|w| {
        w.trace.clear();
        w.dev(json!({"e":"VsReset","sc":sc,"cid":GUEST_CID,"cap":cap,"qsize":8}));
    });
    let r = catch_unwind(AssertUnwindSafe(|| {
        crate::with_any_transport!(t, t => match p.mode.as_str() {
            "txwrap" => drive_txwrap(t, p, &mut rng),
            "rxwrap" => drive_rxwrap(t, p, &mut rng),
            _ => drive(t, p, &mut rng),
        })
    }));
    let result = match r {
        Ok(s) => s,
        Err(pn) => {
            let m = crate::scen_vq::panic_msg(&pn);
            with_world(|w| w.dev(json!({"e":"Panic","msg":m})));
            format!("panic: {m}")
        }
    };
    let segs = if big { vec![] } else { queue_segments(sc) };
    engine::uninstall();
    let keep = ["VsReset", "Call", "Ret", "DevTx", "PeerPkt", "QAdd", "QPop", "Panic", "Stuck", "Drop"];
    let dlines: Vec<String> = with_world(|w| {
        let l = w.d_lines(&[]).into_iter().filter(|l| keep.iter().any(|k| l.contains(&format!("\"e\":\"{}\"", k)))).collect();
        w.trace.clear();
        l
    });
    let n = dlines.len();
    (vec![dlines, segs], json!({"result": result, "events": n}))
}

pub fn all_params(mode: &str, thorough: bool, seed: u64) -> Vec<VsParams> {
    let mut v = vec![];
    let mut s = seed.wrapping_mul(40_692);
    if mode == "wrap" {
        v.push(VsParams { transport: "model".into(), legacy: false, offered: 1 << 32, policy: "notify".into(), cap: 4096, mode: "txwrap".into(), ops: 0, seed: s });
        v.push(VsParams { transport: "model".into(), legacy: false, offered: 1 << 32, policy: "poll".into(), cap: 0, mode: "rxwrap".into(), ops: 0, seed: s + 1 });
        return v;
    }
    for _ in 0..(if thorough { 6 } else { 1 }) {
        for transport in tmake::TRANSPORTS {
            for policy in ["notify", "poll", "late"] {
                for feat in [0u64, 1 << 28, 1 << 29, (1 << 28) | (1 << 29) | (1 << 33)] {
                    for cap in [1u32, 7, 512, 1024, 65536] {
                        s += 1;
                        if !thorough && s % 3 != 0 {
                            continue;
                        }
                        let legacy = !transport.starts_with("pci") && s % 4 == 0;
                        let offered = if legacy { feat } else { feat | (1 << 32) };
                        v.push(VsParams { transport: transport.into(), legacy, offered, policy: policy.into(), cap, mode: "random".into(), ops: if thorough { 600 } else { 250 }, seed: s });
                    }
                }
            }
        }
    }
    v
}
