//! Family `evq` (C19): queues kept stocked with driver-owned buffers - `OwningQueue` directly,
//! `VirtIOInput::pop_pending_event`, `VirtIOSound::latest_notification`.

use crate::core::*;
use crate::engine::{self, EngineCore, Personality, Response, with_engine};
use crate::out::fnv64;
use crate::scen_blk::policy_of;
use crate::scen_life::queue_segments;
use crate::tmake;
use rand::rngs::SmallRng;
use rand::{Rng, SeedableRng};
use serde_json::{Value, json};
use std::collections::VecDeque;
use std::panic::{AssertUnwindSafe, catch_unwind};
use virtio_drivers::device::input::VirtIOInput;
use virtio_drivers::device::sound::VirtIOSound;
use virtio_drivers::queue::{OwningQueue, VirtQueue};
use virtio_drivers::transport::Transport;

#[derive(Clone, Debug)]
pub struct EvqParams {
    pub transport: String,
    pub legacy: bool,
    pub offered: u64,
    pub policy: String,
    pub kind: String, // owning2x16 | owning4x64 | owning8x16 | input | sound
    pub events: usize,
    pub seed: u64,
}
impl EvqParams {
    pub fn to_json(&self) -> Value {
        json!({"family":"evq","transport":self.transport,"legacy":self.legacy,"offered":hex(self.offered),"policy":self.policy,"kind":self.kind,"events":self.events,"seed":self.seed})
    }
    pub fn from_json(v: &Value) -> Self {
        EvqParams {
            transport: v["transport"].as_str().unwrap().into(),
            legacy: v["legacy"].as_bool().unwrap(),
            offered: u64::from_str_radix(v["offered"].as_str().unwrap().trim_start_matches("0x"), 16).unwrap(),
            policy: v["policy"].as_str().unwrap().into(),
            kind: v["kind"].as_str().unwrap().into(),
            events: v["events"].as_u64().unwrap() as usize,
            seed: v["seed"].as_u64().unwrap(),
        }
    }
}

pub struct EvPers {
    pub q: u16,
    /// payloads the device wants to deliver
    pub pending: VecDeque<Vec<u8>>,
    pub taken: Vec<Chain>,
    pub delivered: usize,
}
impl Personality for EvPers {
    fn as_any_mut(&mut self) -> &mut dyn std::any::Any {
        self
    }
    fn request_queues(&self) -> Vec<u16> {
        vec![]
    }
    fn handle(&mut self, _w: &mut World, _q: u16, _chain: &Chain, _readable: &[u8]) -> Option<Response> {
        None
    }
    fn idle(&mut self, w: &mut World, core: &mut EngineCore) -> bool {
        while let Some(c) = w.dev_take(self.q, core.indirect_ok) {
            self.taken.push(c);
        }
        if self.pending.is_empty() || self.taken.is_empty() {
            return false;
        }
        // a burst of completions on any of the posted buffers
        let burst = core.rng.gen_range(1..=std::cmp::min(self.pending.len(), self.taken.len()));
        for _ in 0..burst {
            let data = self.pending.pop_front().unwrap();
            let k = core.rng.gen_range(0..self.taken.len());
            let chain = self.taken.remove(k);
            w.dev(json!({"e":"DevEvent","tok":chain.head,"len":data.len(),"dg":fnv64(&data)}));
            EngineCore::finish(w, self.q, &chain, &Response { data, used_len: None });
            self.delivered += 1;
        }
        tmake::raise_irq();
        true
    }
}

fn dev(v: Value) {
    with_world(|w| w.dev(v));
}

fn feed(rng: &mut SmallRng, make: &dyn Fn(&mut SmallRng) -> Vec<u8>) {
    let k = rng.gen_range(1..6);
    with_engine(|e| {
        for _ in 0..k {
            let d = make(&mut e.core.rng);
            e.pers_mut::<EvPers>().pending.push_back(d);
        }
        if e.core.rng.gen_bool(0.8) {
            e.run(false);
        }
    });
    let _ = rng;
}

/// Long runs (tens of thousands of events, so that the ring indices wrap): the queue-level
/// recording is switched off after construction, and whenever the device's own books say the
/// queue is quiescent - nothing pending, every buffer back at the device, every delivered event
/// handed to the caller - a marker is written at which the device-level trace may be cut.
fn long_run(p: &EvqParams) -> bool {
    p.events >= 60_000
}
fn quiescent_marker(p: &EvqParams, sc_n: usize, cap: usize, q: u16, got_total: usize, since: &mut usize) {
    if !long_run(p) {
        return;
    }
    *since += 1;
    if *since < 400 {
        return;
    }
    let quiet = with_engine(|e| {
        if !e.pers_mut::<EvPers>().pending.is_empty() {
            return false;
        }
        e.run(false);
        let pe = e.pers_mut::<EvPers>();
        pe.pending.is_empty() && pe.taken.len() == sc_n && pe.delivered == got_total
    });
    if quiet {
        *since = 0;
        dev(json!({"e":"EqWarmReset","sc":SC.with(|s| s.borrow().clone()),"n":sc_n,"cap":cap,"q":q}));
    }
}
thread_local! {
    static SC: std::cell::RefCell<String> = const { std::cell::RefCell::new(String::new()) };
}

fn drive_owning<T: Transport, const N: usize, const B: usize>(mut t: T, p: &EvqParams, rng: &mut SmallRng) -> String {
    dev(json!({"e":"Call","op":"new"}));
    let neg = p.offered & ((1 << 28) | (1 << 29) | (1 << 32) | (1 << 33));
    // a bare device: reset, features, queue, DRIVER_OK - as the drivers do
    let f = t.begin_init(virtio_drivers::device::common::Feature::from_bits_truncate(neg));
    let _ = f;
    let vq = match VirtQueue::<LedgerHal, N>::new(&mut t, 0, neg >> 28 & 1 == 1, neg >> 29 & 1 == 1, neg >> 33 & 1 == 1) {
        Ok(q) => q,
        Err(e) => return format!("{:?}", e),
    };
    let mut oq = match OwningQueue::<LedgerHal, N, B>::new(vq) {
        Ok(q) => q,
        Err(e) => return format!("{:?}", e),
    };
    t.finish_init();
    dev(json!({"e":"Ret","got":false}));
    with_world(|w| w.muted = long_run(p));
    let (mut got_total, mut since) = (0usize, 0usize);
    let mut polls = 0;
    while with_engine(|e| e.pers_mut::<EvPers>().delivered) < p.events || polls < 10 {
        polls += 1;
        if polls > 50 * p.events + 100 {
            break;
        }
        if rng.gen_bool(0.4) {
            feed(rng, &|r| {
                let len = match r.gen_range(0..5) { 0 => 0, 1 => B, _ => r.gen_range(0..=B) };
                let mut d = vec![0u8; len];
                r.fill(&mut d[..]);
                d
            });
        }
        dev(json!({"e":"Call","op":"poll"}));
        let mode = rng.gen_range(0..3);
        let mut got: Option<(usize, String)> = None;
        let r = oq.poll(&mut t, |b| {
            got = Some((b.len(), fnv64(b)));
            match mode {
                0 => Ok(Some(b.len())),
                1 => Ok(None),
                _ => Err(virtio_drivers::Error::IoError),
            }
        });
        let _ = r;
        match got {
            Some((len, dg)) => { got_total += 1; dev(json!({"e":"Ret","got":true,"len":len,"dg":dg})) }
            None => dev(json!({"e":"Ret","got":false})),
        }
        quiescent_marker(p, N, B, 0, got_total, &mut since);
    }
    dev(json!({"e":"Drop"}));
    drop(oq);
    drop(t);
    "ok".into()
}

fn drive_input<T: Transport>(t: T, p: &EvqParams, rng: &mut SmallRng) -> String {
    dev(json!({"e":"Call","op":"new"}));
    let mut inp = match VirtIOInput::<LedgerHal, T>::new(t) {
        Ok(i) => i,
        Err(e) => return format!("{:?}", e),
    };
    dev(json!({"e":"Ret","got":false}));
    with_world(|w| w.muted = long_run(p));
    let (mut got_total, mut since) = (0usize, 0usize);
    let mut polls = 0;
    while with_engine(|e| e.pers_mut::<EvPers>().delivered) < p.events || polls < 10 {
        polls += 1;
        if polls > 50 * p.events + 100 {
            break;
        }
        if rng.gen_bool(0.4) {
            feed(rng, &|r| {
                let mut d = vec![0u8; 8];
                r.fill(&mut d[..]);
                d
            });
        }
        dev(json!({"e":"Call","op":"poll"}));
        match inp.pop_pending_event() {
            Some(ev) => {
                let mut b = vec![];
                b.extend(ev.event_type.to_le_bytes());
                b.extend(ev.code.to_le_bytes());
                b.extend(ev.value.to_le_bytes());
                got_total += 1;
                dev(json!({"e":"Ret","got":true,"len":8,"dg":fnv64(&b)}));
            }
            None => dev(json!({"e":"Ret","got":false})),
        }
        quiescent_marker(p, 32, 8, 0, got_total, &mut since);
    }
    dev(json!({"e":"Drop"}));
    drop(inp);
    "ok".into()
}

fn drive_sound<T: Transport>(t: T, p: &EvqParams, rng: &mut SmallRng) -> String {
    use virtio_drivers::device::sound::NotificationType;
    dev(json!({"e":"Call","op":"new"}));
    let mut snd = match VirtIOSound::<LedgerHal, T>::new(t) {
        Ok(i) => i,
        Err(e) => return format!("{:?}", e),
    };
    dev(json!({"e":"Ret","got":false}));
    with_world(|w| w.muted = long_run(p));
    let (mut got_total, mut since) = (0usize, 0usize);
    let mut polls = 0;
    while with_engine(|e| e.pers_mut::<EvPers>().delivered) < p.events || polls < 10 {
        polls += 1;
        if polls > 50 * p.events + 100 {
            break;
        }
        if rng.gen_bool(0.4) {
            feed(rng, &|r| {
                let code: u32 = [0x1000, 0x1001, 0x1100, 0x1101][r.gen_range(0..4)];
                let mut d = code.to_le_bytes().to_vec();
                d.extend(r.r#gen::<u32>().to_le_bytes());
                d
            });
        }
        dev(json!({"e":"Call","op":"poll"}));
        match snd.latest_notification() {
            Ok(Some(n)) => {
                let code: u32 = match n.notification_type() {
                    NotificationType::JackConnected => 0x1000,
                    NotificationType::JackDisconnected => 0x1001,
                    NotificationType::PcmPeriodElapsed => 0x1100,
                    NotificationType::PcmXrun => 0x1101,
                };
                let mut b = code.to_le_bytes().to_vec();
                b.extend(n.data().to_le_bytes());
                got_total += 1;
                dev(json!({"e":"Ret","got":true,"len":8,"dg":fnv64(&b)}));
            }
            Ok(None) => dev(json!({"e":"Ret","got":false})),
            Err(e) => dev(json!({"e":"Ret","got":false,"err":format!("{:?}", e)})),
        }
        quiescent_marker(p, 32, 8, 1, got_total, &mut since);
    }
    dev(json!({"e":"Drop"}));
    drop(snd);
    "ok".into()
}

pub fn run(p: &EvqParams, sc: &str) -> (Vec<Vec<String>>, Value) {
    // every third scenario runs on a platform that maps buffers in place: what the device writes
    // into a re-posted buffer is visible at once (an event must have been copied out before)
    INPLACE_MODE.with(|m| m.set(p.seed % 3 == 0 && !adv_active()));
    reset_world();
    INPLACE_MODE.with(|m| m.set(false));
    let mut rng = SmallRng::seed_from_u64(p.seed);
    let (zoo_kind, q, n, cap): (&str, u16, usize, usize) = match p.kind.as_str() {
        "owning2x16" => ("rng", 0, 2, 16),
        "owning4x64" => ("rng", 0, 4, 64),
        "owning8x16" => ("rng", 0, 8, 16),
        "input" => ("input", 0, 32, 8),
        _ => ("sound", 1, 32, 8),
    };
    engine::install(Box::new(EvPers { q, pending: VecDeque::new(), taken: vec![], delivered: 0 }), policy_of(&p.policy), p.seed ^ 0x33, true);
    let t = tmake::make(&p.transport, zoo_kind, p.offered, p.legacy, 32768, crate::zoo::config_space(zoo_kind));
    SC.with(|s| *s.borrow_mut() = sc.to_string());
    with_world(|w| {
        w.trace.clear();
        w.dev(json!({"e":"EqReset","sc":sc,"n":n,"cap":cap,"q":q}));
    });
    let r = catch_unwind(AssertUnwindSafe(|| {
        crate::with_any_transport!(t, t => match p.kind.as_str() {
            "owning2x16" => drive_owning::<_, 2, 16>(t, p, &mut rng),
            "owning4x64" => drive_owning::<_, 4, 64>(t, p, &mut rng),
            "owning8x16" => drive_owning::<_, 8, 16>(t, p, &mut rng),
            "input" => drive_input(t, p, &mut rng),
            _ => drive_sound(t, p, &mut rng),
        })
    }));
    let result = match r {
        Ok(s) => s,
        Err(pn) => {
            let m = crate::scen_vq::panic_msg(&pn);
            with_world(|w| w.dev(json!({"e":"Panic","msg":m})));
            format!("panic: {m}")
        }
    };
    let segs = queue_segments(sc);
    engine::uninstall();
    with_world(|w| w.muted = false);
    let keep = ["EqReset", "EqWarmReset", "Call", "Ret", "DevEvent", "QAdd", "QPop", "Panic", "Stuck", "Drop"];
    let dlines: Vec<String> = with_world(|w| {
        let l = w.d_lines(&[]).into_iter().filter(|l| keep.iter().any(|k| l.contains(&format!("\"e\":\"{}\"", k)))).collect();
        w.trace.clear();
        l
    });
    let n = dlines.len();
    (vec![dlines, segs], json!({"result": result, "events": n}))
}

pub fn all_params(thorough: bool, seed: u64) -> Vec<EvqParams> {
    let mut v = vec![];
    let mut s = seed.wrapping_mul(279_470);
    for _ in 0..(if thorough { 4 } else { 1 }) {
        for kind in ["owning2x16", "owning4x64", "owning8x16", "input", "sound"] {
            for transport in tmake::TRANSPORTS {
                for policy in ["notify", "poll"] {
                    for feat in [0u64, 1 << 28, 1 << 29, (1 << 28) | (1 << 29) | (1 << 33)] {
                        s += 1;
                        if !thorough && s % 2 == 0 {
                            continue;
                        }
                        let legacy = !transport.starts_with("pci") && s % 5 == 0;
                        let offered = if legacy { feat } else { feat | (1 << 32) };
                        let n = match kind { "owning2x16" => 2, "owning4x64" => 4, "owning8x16" => 8, _ => 32 };
                        v.push(EvqParams { transport: transport.into(), legacy, offered, policy: policy.into(), kind: kind.into(),
                                           events: if thorough { 40 * n } else { 12 * n + 40 }, seed: s });
                    }
                }
            }
        }
    }
    // far more events than a 16-bit ring index counts: the used / available indices wrap once
    let longs: &[(&str, &str, u64)] = if thorough {
        &[("owning2x16", "model", 0), ("owning8x16", "mmio", 1 << 29), ("input", "pci", (1 << 28) | (1 << 29)), ("sound", "model", 1 << 28), ("owning4x64", "mmio", 0)]
    } else {
        &[("owning2x16", "model", 1 << 29), ("input", "mmio", 1 << 28)]
    };
    for (kind, transport, feat) in longs {
        s += 1;
        let transport = tmake::TRANSPORTS.iter().find(|t| t.starts_with(transport)).copied().unwrap_or(tmake::TRANSPORTS[0]);
        v.push(EvqParams { transport: transport.into(), legacy: false, offered: feat | (1 << 32), policy: "poll".into(), kind: (*kind).into(), events: 66_500, seed: s });
    }
    v
}
