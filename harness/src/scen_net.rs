//! Family `net` (C16): raw and buffer-managing network drivers.

use crate::core::*;
use crate::engine::{self, EngineCore, Personality, Response, with_engine};
use crate::out::fnv64;
use crate::scen_blk::policy_of;
use crate::scen_life::queue_segments;
use crate::tmake;
use rand::rngs::SmallRng;
use rand::{Rng, SeedableRng};
use serde_json::{Value, json};
use std::collections::{BTreeMap, VecDeque};
use std::panic::{AssertUnwindSafe, catch_unwind};
use virtio_drivers::device::net::{RxBuffer, VirtIONet, VirtIONetRaw};
use virtio_drivers::transport::Transport;

#[derive(Clone, Debug)]
pub struct NetParams {
    pub transport: String,
    pub legacy: bool,
    pub offered: u64,
    pub policy: String,
    pub mode: String, // raw | buf
    pub qsize: usize,
    pub ops: usize,
    pub seed: u64,
}
impl NetParams {
    pub fn to_json(&self) -> Value {
        json!({"family":"net","transport":self.transport,"legacy":self.legacy,"offered":hex(self.offered),"policy":self.policy,"mode":self.mode,"qsize":self.qsize,"ops":self.ops,"seed":self.seed})
    }
    pub fn from_json(v: &Value) -> Self {
        NetParams {
            transport: v["transport"].as_str().unwrap().into(),
            legacy: v["legacy"].as_bool().unwrap(),
            offered: u64::from_str_radix(v["offered"].as_str().unwrap().trim_start_matches("0x"), 16).unwrap(),
            policy: v["policy"].as_str().unwrap().into(),
            mode: v["mode"].as_str().unwrap().into(),
            qsize: v["qsize"].as_u64().unwrap() as usize,
            ops: v["ops"].as_u64().unwrap() as usize,
            seed: v["seed"].as_u64().unwrap(),
        }
    }
}

pub const BUF_LEN: usize = 2048;

pub struct NetPers {
    pub hdr: usize,
    /// frame lengths waiting to arrive
    pub incoming: VecDeque<usize>,
    pub rx_taken: Vec<Chain>,
    pub counter: u64,
}
impl Personality for NetPers {
    fn as_any_mut(&mut self) -> &mut dyn std::any::Any {
        self
    }
    fn request_queues(&self) -> Vec<u16> {
        vec![1]
    }
    fn handle(&mut self, w: &mut World, _q: u16, chain: &Chain, readable: &[u8]) -> Option<Response> {
        let rl: Vec<u32> = chain.elems.iter().filter(|e| !e.w).map(|e| e.len).collect();
        let wl: Vec<u32> = chain.elems.iter().filter(|e| e.w).map(|e| e.len).collect();
        let h = std::cmp::min(self.hdr, readable.len());
        w.dev(json!({"e":"DevTx","len":readable.len(),"hdr_zero":readable[..h].iter().all(|b| *b == 0) && h == self.hdr,
                     "dg":fnv64(&readable[h..]),"rl":rl,"wl":wl}));
        Some(Response { data: vec![], used_len: Some(0) })
    }
    fn idle(&mut self, w: &mut World, core: &mut EngineCore) -> bool {
        while let Some(c) = w.dev_take(0, core.indirect_ok) {
            self.rx_taken.push(c);
        }
        if self.incoming.is_empty() || self.rx_taken.is_empty() {
            return false;
        }
        // a burst: any of the buffers the device holds, in any order
        let burst = core.rng.gen_range(1..=std::cmp::min(self.incoming.len(), self.rx_taken.len()));
        for _ in 0..burst {
            let flen = self.incoming.pop_front().unwrap();
            let k = core.rng.gen_range(0..self.rx_taken.len());
            let chain = self.rx_taken.remove(k);
            let cap = World::chain_writable_len(&chain);
            let flen = std::cmp::min(flen, cap.saturating_sub(self.hdr));
            let mut data = vec![0u8; self.hdr + flen];
            // a non-trivial header: the driver must skip it, not rely on zeros
            data[0] = 0;
            if self.hdr == 12 {
                data[10] = 1;
            }
            for (i, b) in data[self.hdr..].iter_mut().enumerate() {
                *b = (self.counter as u8).wrapping_mul(13).wrapping_add(i as u8);
            }
            self.counter += 1;
            w.dev(json!({"e":"DevRx","tok":chain.head,"flen":flen,"dg":fnv64(&data[self.hdr..])}));
            EngineCore::finish(w, 0, &chain, &Response { data, used_len: None });
        }
        tmake::raise_irq();
        true
    }
}

fn dev(v: Value) {
    with_world(|w| w.dev(v));
}
fn rfail(e: virtio_drivers::Error) {
    dev(json!({"e":"Ret","ok":false,"err":format!("{:?}", e)}));
}
fn feed(rng: &mut SmallRng) {
    let flen = match rng.gen_range(0..8) { 0 => 0, 1 => 1, 2 => BUF_LEN - 12, 3 => BUF_LEN - 10, 4 => 1514, _ => rng.gen_range(0..1600) };
    with_engine(|e| {
        e.pers_mut::<NetPers>().incoming.push_back(flen);
        if e.core.rng.gen_bool(0.7) {
            e.run(false);
        }
    });
}

fn drive_buf<T: Transport, const N: usize>(t: T, p: &NetParams, rng: &mut SmallRng) -> String {
    dev(json!({"e":"Call","op":"new"}));
    let mut net = match VirtIONet::<LedgerHal, T, N>::new(t, BUF_LEN) {
        Ok(n) => n,
        Err(e) => return format!("{:?}", e),
    };
    dev(json!({"e":"Ret","ok":true}));
    let mut held: Vec<(u64, RxBuffer)> = vec![];
    let mut next_id = 1000u64;
    for _ in 0..p.ops {
        let roll: u32 = rng.gen_range(0..100);
        match roll {
            0..=24 => feed(rng),
            25..=34 => {
                dev(json!({"e":"Call","op":"can_recv"}));
                let b = net.can_recv();
                dev(json!({"e":"Ret","ok":true,"b":b}));
            }
            35..=39 => {
                dev(json!({"e":"Call","op":"can_send"}));
                let b = net.can_send();
                dev(json!({"e":"Ret","ok":true,"b":b}));
            }
            40..=64 => {
                dev(json!({"e":"Call","op":"receive"}));
                match net.receive() {
                    Ok(mut b) => {
                        next_id += 1;
                        // the frame as the caller sees it: through the shared or the mutable view
                        let dg = if rng.gen_bool(0.5) { fnv64(b.packet()) } else { fnv64(b.packet_mut()) };
                        dev(json!({"e":"Ret","ok":true,"packet_len":b.packet_len(),"dg":dg,"idx":next_id}));
                        held.push((next_id, b));
                    }
                    Err(e) => rfail(e),
                }
            }
            65..=84 => {
                if !held.is_empty() {
                    let k = rng.gen_range(0..held.len());
                    let (id, b) = held.remove(k);
                    dev(json!({"e":"Call","op":"recycle","idx":id}));
                    match net.recycle_rx_buffer(b) {
                        Ok(()) => dev(json!({"e":"Ret","ok":true})),
                        Err(e) => rfail(e),
                    }
                }
            }
            _ => {
                let flen = match rng.gen_range(0..6) { 0 => 0, 1 => 1, 2 => 1514, _ => rng.gen_range(0..1600) };
                let mut tb = net.new_tx_buffer(flen);
                rng.fill(tb.packet_mut());
                dev(json!({"e":"Call","op":"send","flen":flen,"dg":fnv64(tb.packet()),"sent":false}));
                match net.send(tb) {
                    Ok(()) => dev(json!({"e":"Ret","ok":true})),
                    Err(e) => rfail(e),
                }
            }
        }
    }
    dev(json!({"e":"Drop"}));
    drop(net);
    drop(held);
    "ok".into()
}

fn drive_raw<T: Transport, const N: usize>(t: T, p: &NetParams, rng: &mut SmallRng) -> String {
    dev(json!({"e":"Call","op":"new"}));
    let mut net = match VirtIONetRaw::<LedgerHal, T, N>::new(t) {
        Ok(n) => n,
        Err(e) => return format!("{:?}", e),
    };
    dev(json!({"e":"Ret","ok":true}));
    let mut rx: BTreeMap<u16, Box<[u8]>> = BTreeMap::new();
    let mut tx: BTreeMap<u16, Box<[u8]>> = BTreeMap::new();
    for _ in 0..p.ops {
        let roll: u32 = rng.gen_range(0..100);
        match roll {
            0..=19 => feed(rng),
            20..=39 => {
                let mut b = vec![0u8; BUF_LEN].into_boxed_slice();
                dev(json!({"e":"Call","op":"receive_begin"}));
                match unsafe { net.receive_begin(&mut b) } {
                    Ok(tok) => {
                        dev(json!({"e":"Ret","ok":true,"tok":tok}));
                        rx.insert(tok, b);
                    }
                    Err(e) => rfail(e),
                }
            }
            40..=44 => {
                dev(json!({"e":"Call","op":"poll_receive"}));
                let v = net.poll_receive();
                dev(json!({"e":"Ret","ok":true,"v":v.map(|x| x as i64).unwrap_or(-1)}));
            }
            45..=64 => {
                if let Some(tok) = net.poll_receive() {
                    if let Some(mut b) = rx.remove(&tok) {
                        dev(json!({"e":"Call","op":"receive_complete","tok":tok}));
                        match unsafe { net.receive_complete(tok, &mut b) } {
                            Ok((h, l)) => dev(json!({"e":"Ret","ok":true,"hdr_len":h,"pkt_len":l,"dg":h.checked_add(l).and_then(|e| b.get(h..e)).map(fnv64).unwrap_or_else(|| "beyond-buffer".into())})),
                            Err(e) => rfail(e),
                        }
                    }
                }
            }
            65..=69 => {
                dev(json!({"e":"Call","op":"can_send"}));
                let b = net.can_send();
                dev(json!({"e":"Ret","ok":true,"b":b}));
            }
            70..=84 => {
                let flen = rng.gen_range(0..1600);
                let mut b = vec![0xaau8; 12 + flen];
                let h = net.fill_buffer_header(&mut b).unwrap();
                b.truncate(h + flen);
                rng.fill(&mut b[h..]);
                let b = b.into_boxed_slice();
                dev(json!({"e":"Call","op":"transmit_begin","flen":flen,"dg":fnv64(&b[h..]),"sent":false}));
                match unsafe { net.transmit_begin(&b) } {
                    Ok(tok) => {
                        dev(json!({"e":"Ret","ok":true,"tok":tok}));
                        tx.insert(tok, b);
                    }
                    Err(e) => rfail(e),
                }
            }
            85..=94 => {
                with_engine(|e| {
                    e.run(false);
                });
                if let Some(tok) = net.poll_transmit() {
                    if let Some(b) = tx.remove(&tok) {
                        dev(json!({"e":"Call","op":"transmit_complete","tok":tok}));
                        match unsafe { net.transmit_complete(tok, &b) } {
                            Ok(_) => dev(json!({"e":"Ret","ok":true})),
                            Err(e) => rfail(e),
                        }
                    }
                }
            }
            _ => {
                let flen = match rng.gen_range(0..4) { 0 => 0, _ => rng.gen_range(0..1600) };
                let mut b = vec![0u8; flen];
                rng.fill(&mut b[..]);
                // the blocking send needs nothing else outstanding on the transmit queue
                with_engine(|e| {
                    e.run(false);
                });
                while let Some(tok) = net.poll_transmit() {
                    let Some(bb) = tx.remove(&tok) else { break };
                    dev(json!({"e":"Call","op":"transmit_complete","tok":tok}));
                    match unsafe { net.transmit_complete(tok, &bb) } {
                        Ok(_) => dev(json!({"e":"Ret","ok":true})),
                        Err(e) => rfail(e),
                    }
                }
                if tx.is_empty() {
                    dev(json!({"e":"Call","op":"send","flen":flen,"dg":fnv64(&b),"sent":false}));
                    match net.send(&b) {
                        Ok(()) => dev(json!({"e":"Ret","ok":true})),
                        Err(e) => rfail(e),
                    }
                }
            }
        }
    }
    dev(json!({"e":"Drop"}));
    drop(net);
    drop(rx);
    drop(tx);
    "ok".into()
}

pub fn run(p: &NetParams, sc: &str) -> (Vec<Vec<String>>, Value) {
    // every third scenario runs on a platform that maps buffers in place (no bounce copies)
    INPLACE_MODE.with(|m| m.set(p.seed % 3 == 0 && !adv_active()));
    reset_world();
    INPLACE_MODE.with(|m| m.set(false));
    let mut rng = SmallRng::seed_from_u64(p.seed);
    let negotiated = p.offered & ((1 << 5) | (1 << 16) | (1 << 28) | (1 << 29) | (1 << 32) | (1 << 33));
    let hdr = if negotiated >> 32 & 1 == 1 { 12 } else { 10 };
    engine::install(Box::new(NetPers { hdr, incoming: VecDeque::new(), rx_taken: vec![], counter: 1 }), policy_of(&p.policy), p.seed ^ 0x77, true);
    let t = tmake::make(&p.transport, "net", p.offered, p.legacy, 32768, crate::zoo::config_space("net"));
    with_world(|w| {
        w.trace.clear();
        w.dev(json!({"e":"NetReset","sc":sc,"hdr":hdr,"n":p.qsize,"mode":p.mode,"ind":negotiated >> 28 & 1 == 1}));
    });
    let r = catch_unwind(AssertUnwindSafe(|| {
        crate::with_any_transport!(t, t => match (p.mode.as_str(), p.qsize) {
            ("buf", 2) => drive_buf::<_, 2>(t, p, &mut rng),
            ("buf", 4) => drive_buf::<_, 4>(t, p, &mut rng),
            ("buf", _) => drive_buf::<_, 16>(t, p, &mut rng),
            (_, 2) => drive_raw::<_, 2>(t, p, &mut rng),
            (_, 4) => drive_raw::<_, 4>(t, p, &mut rng),
            _ => drive_raw::<_, 16>(t, p, &mut rng),
        })
    }));
    let result = match r {
        Ok(s) => s,
        Err(pn) => {
            let m = crate::scen_vq::panic_msg(&pn);
            with_world(|w| w.dev(json!({"e":"Panic","msg":m})));
            format!("panic: {m}")
        }
    };
    let segs = queue_segments(sc);
    engine::uninstall();
    let keep = ["NetReset", "Call", "Ret", "DevRx", "DevTx", "QAdd", "QPop", "Panic", "Stuck", "Drop"];
    let dlines: Vec<String> = with_world(|w| {
        let l = w.d_lines(&[]).into_iter().filter(|l| keep.iter().any(|k| l.contains(&format!("\"e\":\"{}\"", k)))).collect();
        w.trace.clear();
        l
    });
    let n = dlines.len();
    (vec![dlines, segs], json!({"result": result, "events": n}))
}

pub fn all_params(thorough: bool, seed: u64) -> Vec<NetParams> {
    let mut v = vec![];
    let mut s = seed.wrapping_mul(16_807);
    for _ in 0..(if thorough { 5 } else { 1 }) {
        for transport in tmake::TRANSPORTS {
            for (pi, policy) in ["notify", "poll", "late"].iter().enumerate() {
                for (fi, feat) in [0u64, (1 << 5) | (1 << 16), 1 << 28, (1 << 29) | (1 << 5), (1 << 28) | (1 << 29) | (1 << 33)].iter().enumerate() {
                    for mode in ["raw", "buf"] {
                        for v1 in [false, true] {
                            // the header form follows the *negotiated* VERSION_1 bit, not the
                            // transport generation: legacy transports mostly come without it and
                            // modern ones with it, but every pairing occurs (C08, C16)
                            if !thorough && (pi + fi) % 2 == 1 && mode == "raw" {
                                continue;
                            }
                            s += 1;
                            let can_be_legacy = !transport.starts_with("pci");
                            let legacy = can_be_legacy && if v1 { s % 5 == 0 } else { s % 3 != 0 };
                            let offered = if v1 { feat | (1 << 32) } else { *feat };
                            v.push(NetParams { transport: transport.into(), legacy, offered, policy: policy.to_string(), mode: mode.into(),
                                               qsize: [2, 4, 16][(s % 3) as usize], ops: if thorough { 500 } else { 160 }, seed: s });
                        }
                    }
                }
            }
        }
    }
    v
}
