//! Size-erased view of `VirtQueue<LedgerHal, N>` so scenarios can range over queue sizes.

use crate::core::LedgerHal;
use crate::transport::ModelTransport;
use virtio_drivers::Result;
use virtio_drivers::queue::VirtQueue;

pub trait AnyQueue {
    unsafe fn add<'a, 'b>(&mut self, ins: &'a [&'b [u8]], outs: &'a mut [&'b mut [u8]]) -> Result<u16>;
    unsafe fn pop_used<'a>(&mut self, token: u16, ins: &'a [&'a [u8]], outs: &'a mut [&'a mut [u8]]) -> Result<u32>;
    fn can_pop(&self) -> bool;
    fn peek_used(&self) -> Option<u16>;
    fn available_desc(&self) -> usize;
    fn should_notify(&self) -> bool;
    fn set_dev_notify(&mut self, enable: bool);
    fn add_notify_wait_pop<'a>(&mut self, ins: &'a [&'a [u8]], outs: &'a mut [&'a mut [u8]], t: &mut ModelTransport) -> Result<u32>;
}

impl<const N: usize> AnyQueue for VirtQueue<LedgerHal, N> {
    unsafe fn add<'a, 'b>(&mut self, ins: &'a [&'b [u8]], outs: &'a mut [&'b mut [u8]]) -> Result<u16> {
        unsafe { VirtQueue::add(self, ins, outs) }
    }
    unsafe fn pop_used<'a>(&mut self, token: u16, ins: &'a [&'a [u8]], outs: &'a mut [&'a mut [u8]]) -> Result<u32> {
        unsafe { VirtQueue::pop_used(self, token, ins, outs) }
    }
    fn can_pop(&self) -> bool {
        VirtQueue::can_pop(self)
    }
    fn peek_used(&self) -> Option<u16> {
        VirtQueue::peek_used(self)
    }
    fn available_desc(&self) -> usize {
        VirtQueue::available_desc(self)
    }
    fn should_notify(&self) -> bool {
        VirtQueue::should_notify(self)
    }
    fn set_dev_notify(&mut self, enable: bool) {
        VirtQueue::set_dev_notify(self, enable)
    }
    fn add_notify_wait_pop<'a>(&mut self, ins: &'a [&'a [u8]], outs: &'a mut [&'a mut [u8]], t: &mut ModelTransport) -> Result<u32> {
        VirtQueue::add_notify_wait_pop(self, ins, outs, t)
    }
}

pub const SIZES: [usize; 16] = [1, 2, 4, 8, 16, 32, 64, 128, 256, 512, 1024, 2048, 4096, 8192, 16384, 32768];

pub fn make_queue(
    n: usize,
    t: &mut ModelTransport,
    idx: u16,
    indirect: bool,
    event_idx: bool,
    ap: bool,
) -> Result<Box<dyn AnyQueue>> {
    macro_rules! mk {
        ($($n:literal),*) => {
            match n {
                $($n => Ok(Box::new(VirtQueue::<LedgerHal, $n>::new(t, idx, indirect, event_idx, ap)?) as Box<dyn AnyQueue>),)*
                _ => panic!("unsupported queue size {n}"),
            }
        };
    }
    mk!(1, 2, 4, 8, 16, 32, 64, 128, 256, 512, 1024, 2048, 4096, 8192, 16384, 32768)
}
