//! Family `layout` (C06): one `VirtQueue::new` ... drop life per configuration - every queue size,
//! legacy/modern layout, flag combination and (in-use, maximum size) answer of the transport.

use crate::anyq::*;
use crate::core::*;
use crate::hooks;
use crate::transport::*;
use serde_json::{Value, json};
use std::panic::{AssertUnwindSafe, catch_unwind};
use virtio_drivers::transport::DeviceType;

#[derive(Clone, Debug)]
pub struct LayoutParams {
    pub n: usize,
    pub legacy: bool,
    pub flags: u32,
    pub in_use: bool,
    pub max: u32,
    /// the platform refuses the k-th DMA allocation (0: none)
    pub fail_at: usize,
}

impl LayoutParams {
    pub fn to_json(&self) -> Value {
        json!({"family":"layout","n":self.n,"legacy":self.legacy,"flags":self.flags,"in_use":self.in_use,"max":self.max,"fail_at":self.fail_at})
    }
    pub fn from_json(v: &Value) -> Self {
        LayoutParams {
            n: v["n"].as_u64().unwrap() as usize,
            legacy: v["legacy"].as_bool().unwrap(),
            flags: v["flags"].as_u64().unwrap() as u32,
            in_use: v["in_use"].as_bool().unwrap(),
            max: v["max"].as_u64().unwrap() as u32,
            fail_at: v["fail_at"].as_u64().unwrap_or(0) as usize,
        }
    }
}

pub fn all_params(thorough: bool) -> Vec<LayoutParams> {
    let mut v = vec![];
    for &n in SIZES.iter() {
        for legacy in [false, true] {
            for flags in 0..8u32 {
                let mut answers: Vec<(bool, u32)> = vec![(false, n as u32), (true, n as u32), (false, 65536), (false, 0)];
                if n > 1 {
                    answers.push((false, n as u32 - 1));
                    answers.push((false, n as u32 / 2));
                }
                answers.push((false, n as u32 + 1));
                answers.push((true, 0));
                if !thorough && flags != 0 && flags != 7 {
                    answers.truncate(2);
                }
                for (in_use, max) in answers {
                    v.push(LayoutParams { n, legacy, flags, in_use, max, fail_at: 0 });
                }
                // fault point: no memory for the first / second region
                if flags == 0 || flags == 7 || thorough {
                    for fail_at in 1..=2 {
                        v.push(LayoutParams { n, legacy, flags, in_use: false, max: n as u32, fail_at });
                    }
                }
            }
        }
    }
    v
}

pub const DMA_BASES: [u64; 5] = [0x0000_0012_3450_0000, 0x0000_0000_ffff_e000, 0x0000_7fff_ffff_d000, 0xffff_fff0_0000_0000, 0x0000_0000_0001_0000];

pub fn run(p: &LayoutParams, sc: &str) -> (Vec<String>, Value) {
    reset_world();
    let k: usize = sc.rsplit('-').next().and_then(|s| s.parse().ok()).unwrap_or(0);
    with_world(|w| {
        w.external_calls = true;
        w.next_dma_pa = DMA_BASES[k % DMA_BASES.len()];
        w.fail_dma_at = if p.fail_at > 0 { Some(p.fail_at) } else { None };
    });
    hooks::install(Box::new(|_| {}));
    let (ind, ev, ap) = (p.flags & 1 != 0, p.flags & 2 != 0, p.flags & 4 != 0);
    let mut t = ModelTransport::new(DeviceType::Block, 0, p.legacy, 1, p.max, vec![]);
    with_t(|s| s.queue_in_use[0] = p.in_use);
    with_world(|w| {
        w.trace.clear();
        w.dev(json!({"e":"LReset","sc":sc,"n":p.n,"legacy":p.legacy,"ap":ap,"in_use":p.in_use,"max":p.max}));
    });
    let r = catch_unwind(AssertUnwindSafe(|| make_queue(p.n, &mut t, 0, ind, ev, ap)));
    let mut result = "panic".to_string();
    match r {
        Ok(Ok(queue)) => {
            with_world(|w| {
                w.end_new(0);
                w.dev(json!({"e":"NewRet","ok":true}));
            });
            result = "ok".into();
            drop(queue);
        }
        Ok(Err(e)) => {
            with_world(|w| w.dev(json!({"e":"NewRet","ok":false,"err":format!("{:?}", e)})));
            result = format!("{:?}", e);
        }
        Err(pn) => with_world(|w| w.dev(json!({"e":"Panic","call":"VirtQueue::new","msg":crate::scen_vq::panic_msg(&pn)}))),
    }
    with_world(|w| w.dev(json!({"e":"LEnd"})));
    hooks::uninstall();
    drop(t);
    let lines = with_world(|w| {
        let l: Vec<String> = w.d_lines(&["InitLinks"]).into_iter().filter(|l| !l.contains("\"e\":\"TNew\"")).collect();
        w.trace.clear();
        l
    });
    let n = lines.len();
    (lines, json!({"result": result, "events": n}))
}
