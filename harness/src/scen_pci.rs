//! Families `pcinew`, `pciops` (C11) and `pcibus` (C12).

use crate::core::*;
use crate::mmio;
use crate::pci::*;
use rand::rngs::SmallRng;
use rand::{Rng, SeedableRng};
use serde_json::{Value, json};
use std::panic::{AssertUnwindSafe, catch_unwind};
use virtio_drivers::transport::{SomeTransport, Transport};
use virtio_drivers::transport::pci::PciTransport;
use virtio_drivers::transport::pci::bus::{BarInfo, Cam, ConfigurationAccess, DeviceFunction, MemoryBarType, MmioCam, PciRoot};

#[derive(Clone, Debug)]
pub struct PciParams {
    pub mode: String, // new | ops | bus
    pub seed: u64,
    pub count: usize,
    pub cam: bool,
}
impl PciParams {
    pub fn to_json(&self) -> Value {
        json!({"family":"pci","mode":self.mode,"seed":self.seed,"count":self.count,"cam":self.cam})
    }
    pub fn from_json(v: &Value) -> Self {
        PciParams { mode: v["mode"].as_str().unwrap().into(), seed: v["seed"].as_u64().unwrap(), count: v["count"].as_u64().unwrap() as usize, cam: v["cam"].as_bool().unwrap() }
    }
}

fn reg(v: Value) {
    with_world(|w| w.reg(v));
}

const DF: DeviceFunction = DeviceFunction { bus: 0, device: 5, function: 0 };
const BDF: (u8, u8, u8) = (0, 5, 0);

fn bar_json(f: &PciFunction) -> Vec<Value> {
    (0..6)
        .map(|i| {
            let (kind, size) = match &f.bars[i] {
                BarKind::None => ("none", 0),
                BarKind::Io { size, .. } => ("io", *size),
                BarKind::Mem32 { size, .. } => ("mem32", *size),
                BarKind::Mem64 { size, .. } => ("mem64", *size),
                BarKind::Upper => ("upper", 0),
                BarKind::MemReserved { size } => ("memres", *size),
            };
            json!({"kind":kind,"addrl":limbs(f.bar_address(i),4),"sizel":limbs(size,4)})
        })
        .collect()
}

struct CapSpec {
    id: u8,
    cap_len: u8,
    cfg_type: u8,
    bar: u8,
    offset: u32,
    length: u32,
    mult: u32,
}

fn random_config(rng: &mut SmallRng) -> (PciFunction, Vec<CapSpec>) {
    let mut f = PciFunction::new(0x1af4, 0x1042);
    // ---- BARs
    let mut i = 0;
    while i < 6 {
        let r: u32 = rng.gen_range(0..100);
        if r < 25 {
            i += 1;
        } else if r < 35 {
            f.bars[i] = BarKind::Io { size: 0x20, hi16_zero: rng.gen_bool(0.5) };
            f.set_bar_address(i, 0xc000 + 0x100 * i as u64);
            i += 1;
        } else if r < 65 || i == 5 {
            let size = [16u64, 64, 4096, 1 << 20, 1 << 31][rng.gen_range(0..5)];
            f.bars[i] = BarKind::Mem32 { size, prefetch: rng.gen_bool(0.3), below_1m: rng.gen_bool(0.1) };
            let addr = if rng.gen_bool(0.15) { 0 } else if size == 1 << 31 { 1 << 31 } else { (0xfe00_0000u64 + ((i as u64) << 21)) & !(size - 1) };
            f.set_bar_address(i, addr);
            i += 1;
        } else {
            let size = [16u64, 4096, 0x4000, 1 << 32, 1 << 40, 1 << 63][rng.gen_range(0..6)];
            f.bars[i] = BarKind::Mem64 { size, prefetch: rng.gen_bool(0.7) };
            f.bars[i + 1] = BarKind::Upper;
            let addr = if rng.gen_bool(0.15) {
                0
            } else if size == 1 << 63 {
                1 << 63
            } else {
                [0x0000_00a0_0000_0000u64, 0x0000_0000_e000_0000, 0xffff_ff00_0000_0000, 0x0000_7fff_0000_0000][rng.gen_range(0..4)] & !(size - 1)
            };
            f.set_bar_address(i, if addr == 0 && rng.gen_bool(0.5) { 0 } else { addr });
            i += 2;
        }
    }
    f.command = [0u16, 1, 2, 3, 7, 0x407][rng.gen_range(0..6)];
    // ---- capabilities: start from a well-formed set placed in some memory BAR, then perturb
    let mem_bars: Vec<u8> = (0..6u8).filter(|&i| matches!(f.bars[i as usize], BarKind::Mem32 { .. } | BarKind::Mem64 { .. })).collect();
    let pick_bar = |rng: &mut SmallRng| -> u8 {
        if !mem_bars.is_empty() && rng.gen_bool(0.8) { mem_bars[rng.gen_range(0..mem_bars.len())] } else { rng.gen_range(0..6) }
    };
    let weird32: [u32; 18] = [0, 1, 2, 4, 8, 55, 56, 57, 60, 0x1000, 4095, 4096, 0x7fff_ffff, 0x8000_0000, 0xffff_fffc, 0xffff_fffe, 0xffff_ffff, 0x3000];
    let b = pick_bar(rng);
    let mut caps = vec![
        CapSpec { id: 9, cap_len: 16, cfg_type: 1, bar: b, offset: 0, length: 0x38, mult: 0 },
        CapSpec { id: 9, cap_len: 16, cfg_type: 3, bar: b, offset: 0x1000, length: 4, mult: 0 },
        CapSpec { id: 9, cap_len: 16, cfg_type: 4, bar: b, offset: 0x2000, length: 0x100, mult: 0 },
        CapSpec { id: 9, cap_len: 20, cfg_type: 2, bar: b, offset: 0x3000, length: 0x40, mult: 4 },
    ];
    let nmut = rng.gen_range(0..4);
    for _ in 0..nmut {
        let k = rng.gen_range(0..caps.len());
        match rng.gen_range(0..13) {
            // the same window moved by a few bytes (alignment of the structure it will hold)
            11 | 12 => caps[k].offset = caps[k].offset.wrapping_add([1u32, 2, 4, 4, 8, 12, 20][rng.gen_range(0..7)]),
            0 => caps[k].offset = weird32[rng.gen_range(0..weird32.len())],
            1 => caps[k].length = weird32[rng.gen_range(0..weird32.len())],
            2 => caps[k].bar = [0, 1, 2, 3, 4, 5, 6, 7, 59, 60, 255][rng.gen_range(0..11)],
            3 => caps[k].cap_len = [0, 12, 15, 16, 19, 20, 24][rng.gen_range(0..7)],
            4 => caps[k].id = [5, 0x11, 9][rng.gen_range(0..3)],
            5 => caps[k].mult = [0, 1, 2, 4, 6, 0xffff_fffe, 3][rng.gen_range(0..7)],
            6 => {
                // duplicate of the same type, different place, inserted before or after
                let mut c = CapSpec { offset: caps[k].offset.wrapping_add(0x800), ..CapSpec { id: caps[k].id, cap_len: caps[k].cap_len, cfg_type: caps[k].cfg_type, bar: pick_bar(rng), offset: 0, length: caps[k].length, mult: 2 } };
                if rng.gen_bool(0.5) {
                    c.cap_len = 12;
                }
                let at = if rng.gen_bool(0.5) { k } else { k + 1 };
                caps.insert(at, c);
            }
            7 => {
                caps.remove(k);
                if caps.is_empty() {
                    break;
                }
            }
            8 => caps[k].cfg_type = rng.gen_range(0..9),
            9 => {
                let j = rng.gen_range(0..caps.len());
                caps.swap(k, j);
            }
            _ => {
                caps[k].offset = rng.gen_range(0..0x2000u32) & !3;
                caps[k].length = rng.gen_range(0..0x100u32);
            }
        }
    }
    let mut raw = vec![];
    let mut off = 0x40u8;
    for c in &caps {
        let mut bytes = virtio_cap(c.cap_len, c.cfg_type, c.bar, c.offset, c.length, Some(c.mult));
        bytes[0] = c.id;
        raw.push((off, bytes));
        off += 24;
    }
    f.set_caps(raw);
    (f, caps)
}

fn run_new(p: &PciParams, sc: &str) -> (Vec<String>, Value) {
    let mut rng = SmallRng::seed_from_u64(p.seed);
    let mut lines = vec![];
    let mut oks = 0;
    for k in 0..p.count {
        reset_world();
        let (f, caps) = random_config(&mut rng);
        let before = f.snapshot();
        let capsj: Vec<Value> = caps
            .iter()
            .map(|c| json!({"id":c.id,"cap_len":c.cap_len,"cfg_type":c.cfg_type,"bar":c.bar,"offl":limbs(c.offset as u64,2),"lenl":limbs(c.length as u64,2),"multl":limbs(c.mult as u64,2)}))
            .collect();
        reg(json!({"e":"PciReset","sc":format!("{sc}.{k}")}));
        reg(json!({"e":"PciCfg","caps":capsj,"bars":bar_json(&f),"cmd":f.command}));
        with_bus(|b| {
            b.functions.insert(BDF, f);
            b.log = false;
        });
        let r = catch_unwind(AssertUnwindSafe(|| {
            if p.cam {
                let base = map_cam(Cam::MmioCam);
                let mut root = PciRoot::new(unsafe { MmioCam::new(base, Cam::MmioCam) });
                PciTransport::new::<LedgerHal, _>(&mut root, DF)
            } else {
                let mut root = PciRoot::new(ModelCam);
                PciTransport::new::<LedgerHal, _>(&mut root, DF)
            }
        }));
        let (after, wdec) = with_bus(|b| {
            let f = b.functions.get(&BDF).unwrap();
            (f.snapshot(), f.writes_while_decoding.len())
        });
        let res = match &r {
            Ok(Ok(_)) => "ok".to_string(),
            Ok(Err(e)) => format!("{:?}", e).split(['(', ' ', '{']).next().unwrap().to_string(),
            Err(pn) => format!("panic: {}", crate::scen_vq::panic_msg(pn)),
        };
        reg(json!({"e":"PciNewRet","res":res,"is_ok":res == "ok","is_panic":res.starts_with("panic"),
                   "unchanged": before["digest"] == after["digest"], "writes_while_decoding": wdec}));
        if let Ok(Ok(t)) = r {
            oks += 1;
            // the transport resets the device when dropped; the accesses must fall in its windows
            // ... and so must those of setting up a queue, each naturally aligned for its width
            reg(json!({"e":"PciDrop"}));
            let _ = catch_unwind(AssertUnwindSafe(move || {
                let mut t = t;
                t.queue_set(0, 4, 0x1_2345_6000, 0x1_2345_7000, 0x1_2345_8000);
                drop(t)
            }));
            reg(json!({"e":"PciDropEnd"}));
        }
        lines.extend(with_world(|w| w.m_lines(&[])));
    }
    let n = lines.len();
    (lines, json!({"events": n, "configs": p.count, "accepted": oks}))
}

fn run_ops(p: &PciParams, sc: &str) -> (Vec<String>, Value) {
    let mut rng = SmallRng::seed_from_u64(p.seed);
    let mut lines = vec![];
    for k in 0..p.count {
        reset_world();
        let mult = [0u32, 2, 4, 6, 8][rng.gen_range(0..5)];
        // window lengths that are not whole words: the trailing partial word is inside the window
        // for byte / half-word accesses and must never be exceeded by wider ones
        let cfg_len = [0usize, 4, 8, 12, 60, 256, 5, 6, 7, 13, 62][rng.gen_range(0..11)];
        EXACT_CFG_LEN.with(|e| e.set(true));
        DUP_CAPS.with(|d| d.set(k % 3 == 1));
        let nq = 3;
        let mut d = VirtioPciDev::new(0, nq, 32768, (0..cfg_len).map(|i| i as u8).collect(), mult);
        d.semantic = false;
        d.reset_lag = rng.gen_range(0..4);
        // notify offsets need not be the queue index
        for (i, q) in d.queues.iter_mut().enumerate() {
            q.notify_off = [i as u16, (nq - 1 - i) as u16, 0, (2 * i) as u16][k % 4];
        }
        let noffs: Vec<u16> = d.queues.iter().map(|q| q.notify_off).collect();
        let dev = install_standard(BDF, 2, d, cfg_len, cfg_len > 0);
        EXACT_CFG_LEN.with(|e| e.set(false));
        DUP_CAPS.with(|d| d.set(false));
        with_bus(|b| b.log = false);
        let t = if p.cam {
            let base = map_cam(Cam::Ecam);
            let mut root = PciRoot::new(unsafe { MmioCam::new(base, Cam::Ecam) });
            PciTransport::new::<LedgerHal, _>(&mut root, DF)
        } else {
            let mut root = PciRoot::new(ModelCam);
            PciTransport::new::<LedgerHal, _>(&mut root, DF)
        };
        let t = match t {
            Ok(t) => t,
            Err(e) => {
                // a well-formed function must be accepted: an event no specification explains
                with_world(|w| w.trace.clear());
                reg(json!({"e":"PReset","sc":format!("{sc}.{k}"),"mult":mult,"cfg_len":cfg_len,"has_cfg":cfg_len>0,"noffs":noffs,"notify_len":2,"nq":nq}));
                reg(json!({"e":"StandardFunctionRefused","err":format!("{:?}", e)}));
                lines.extend(with_world(|w| w.m_lines(&[])));
                continue;
            }
        };
        with_world(|w| w.trace.clear());
        let notify_len = std::cmp::max(2, 2 * nq * mult as usize + 2);
        reg(json!({"e":"PReset","sc":format!("{sc}.{k}"),"mult":mult,"cfg_len":cfg_len,"has_cfg":cfg_len>0,"noffs":noffs,"notify_len":notify_len,"nq":nq}));
        let (d1, d2) = (dev.clone(), dev.clone());
        let set_off = move |f: u64| d1.borrow_mut().offered = f;
        let set_isr = move |i: u32| d2.borrow_mut().isr = i as u8;
        if k % 2 == 0 {
            let mut st: SomeTransport<'static> = t.into();
            let r = std::panic::catch_unwind(std::panic::AssertUnwindSafe(|| crate::scen_mmio::exercise(&mut st, &set_off, &set_isr, false, cfg_len, &mut rng)));
            if let Err(pn) = r {
                reg(json!({"e":"Panic","msg":crate::scen_vq::panic_msg(&pn)}));
            }
            reg(json!({"e":"Op","name":"drop","vl":[0,0]}));
            drop(st);
            reg(json!({"e":"OpEnd"}));
        } else {
            let mut t = t;
            let r = std::panic::catch_unwind(std::panic::AssertUnwindSafe(|| crate::scen_mmio::exercise(&mut t, &set_off, &set_isr, false, cfg_len, &mut rng)));
            if let Err(pn) = r {
                reg(json!({"e":"Panic","msg":crate::scen_vq::panic_msg(&pn)}));
            }
            reg(json!({"e":"Op","name":"drop","vl":[0,0]}));
            drop(t);
            reg(json!({"e":"OpEnd"}));
        }
        lines.extend(with_world(|w| w.m_lines(&[])));
    }
    let n = lines.len();
    (lines, json!({"events": n, "devices": p.count}))
}

fn barinfo_json(r: &Result<Option<BarInfo>, virtio_drivers::transport::pci::bus::PciError>) -> Value {
    match r {
        Err(e) => json!({"kind":"err","err":format!("{:?}", e)}),
        Ok(None) => json!({"kind":"none"}),
        Ok(Some(BarInfo::IO { address, size })) => json!({"kind":"io","addrl":limbs(*address as u64,4),"sizel":limbs(*size as u64,4)}),
        Ok(Some(BarInfo::Memory { address_type, prefetchable, address, size })) => json!({"kind":"mem",
            "type": match address_type { MemoryBarType::Width32 => "32", MemoryBarType::Below1MiB => "1m", MemoryBarType::Width64 => "64" },
            "prefetch": prefetchable, "addrl": limbs(*address,4), "sizel": limbs(*size,4)}),
    }
}

fn fn_model_json(f: &PciFunction) -> Value {
    let regs: Vec<Value> = (0..6)
        .map(|i| {
            let (m, fl) = f.bar_mask_flags(i);
            json!({"maskl":limbs(m as u64,2),"flags":fl,"regl":limbs(f.bar_regs[i] as u64,2)})
        })
        .collect();
    json!({"regs":regs,"cmd":f.command})
}

fn run_bus(p: &PciParams, sc: &str) -> (Vec<String>, Value) {
    let mut rng = SmallRng::seed_from_u64(p.seed);
    let mut lines = vec![];
    let mut nbar = 0;
    reset_world();
    // ---------------- (1) bar_info over BAR encodings x slots x initial command values
    let mut models: Vec<PciFunction> = vec![];
    for slot in 0..6usize {
        for exp in [2u32, 4, 5, 8, 12, 16, 20, 31, 32, 40, 63] {
            for kind in 0..6 {
                let mut f = PciFunction::new(0x1af4, 0x1041);
                let size = 1u64 << exp;
                let ok = match kind {
                    0 if exp >= 2 && exp <= 31 => { f.bars[slot] = BarKind::Io { size, hi16_zero: false }; true }
                    1 if exp >= 2 && exp <= 15 => { f.bars[slot] = BarKind::Io { size, hi16_zero: true }; true }
                    2 if exp >= 4 && exp <= 31 => { f.bars[slot] = BarKind::Mem32 { size, prefetch: rng.gen_bool(0.5), below_1m: false }; true }
                    3 if exp >= 4 && exp <= 19 => { f.bars[slot] = BarKind::Mem32 { size, prefetch: false, below_1m: true }; true }
                    4 if exp >= 4 => {
                        f.bars[slot] = BarKind::Mem64 { size, prefetch: rng.gen_bool(0.5) };
                        if slot < 5 { f.bars[slot + 1] = BarKind::Upper; }
                        true
                    }
                    5 if exp == 12 => { f.bars[slot] = BarKind::MemReserved { size }; true }
                    _ => false,
                };
                if !ok {
                    continue;
                }
                // some neighbours so that "all BAR registers exactly as they were" is not vacuous
                for j in 0..6 {
                    if f.bars[j] == BarKind::None && j != slot && !(slot < 5 && j == slot + 1) && rng.gen_bool(0.4) {
                        f.bars[j] = BarKind::Mem32 { size: 0x1000, prefetch: false, below_1m: false };
                        f.set_bar_address(j, 0xd000_0000 + 0x10000 * j as u64);
                    }
                }
                let addr: u64 = if rng.gen_bool(0.2) { 0 } else { rng.r#gen::<u64>() };
                f.set_bar_address(slot, addr);
                f.command = [0u16, 1, 2, 3, 4, 7, 0x400, 0x407, 0x77f][rng.gen_range(0..9)];
                models.push(f);
            }
        }
    }
    // unimplemented BARs
    let mut f = PciFunction::new(0x1af4, 0x1041);
    f.command = 3;
    models.push(f);
    for (k, f) in models.into_iter().enumerate() {
        reg(json!({"e":"BReset","sc":format!("{sc}.b{k}"),"fn":fn_model_json(&f)}));
        with_bus(|b| {
            b.functions.clear();
            b.functions.insert(BDF, f);
            b.log = true;
        });
        let mut root = PciRoot::new(ModelCam);
        for slot in 0..6u8 {
            // the upper half of a 64-bit BAR is not a BAR of its own
            if with_bus(|b| b.functions.get(&BDF).unwrap().bars[slot as usize] == BarKind::Upper) {
                continue;
            }
            reg(json!({"e":"Op","name":"bar_info","slot":slot}));
            let r = catch_unwind(AssertUnwindSafe(|| root.bar_info(DF, slot)));
            let after = with_bus(|b| fn_model_json(b.functions.get(&BDF).unwrap()));
            match r {
                Ok(r) => reg(json!({"e":"OpEnd","res":barinfo_json(&r),"after":after})),
                Err(pn) => reg(json!({"e":"Panic","call":"bar_info","msg":crate::scen_vq::panic_msg(&pn)})),
            }
            nbar += 1;
        }
        // bars(): the whole table in one call (skips the upper halves)
        reg(json!({"e":"Op","name":"bars"}));
        let r = catch_unwind(AssertUnwindSafe(|| root.bars(DF)));
        let after = with_bus(|b| fn_model_json(b.functions.get(&BDF).unwrap()));
        match r {
            Ok(Ok(t)) => reg(json!({"e":"OpEnd","res":{"kind":"table","t":t.iter().map(|x| barinfo_json(&Ok(x.clone()))).collect::<Vec<_>>()},"after":after})),
            Ok(Err(e)) => reg(json!({"e":"OpEnd","res":{"kind":"err","err":format!("{:?}", e)},"after":after})),
            Err(pn) => reg(json!({"e":"Panic","call":"bars","msg":crate::scen_vq::panic_msg(&pn)})),
        }
        lines.extend(with_world(|w| {
            let l = w.m_lines(&[]);
            w.trace.clear();
            l
        }));
    }
    // ---------------- (2) CAM / ECAM offsets: sampled for TLC, exhaustive against the inverse
    reg(json!({"e":"CReset","sc":format!("{sc}.cam")}));
    let mut mismatches = 0u64;
    let mut total = 0u64;
    for cam in [Cam::MmioCam, Cam::Ecam] {
        let base = map_cam(cam);
        let mc = unsafe { MmioCam::new(base, cam) };
        with_bus(|b| b.log = false);
        let name = if cam == Cam::Ecam { "ecam" } else { "cam" };
        let mut last: i64 = -1;
        for b in 0..=255u8 {
            for d in 0..32u8 {
                for f in 0..8u8 {
                    for r in 0..64u8 {
                        let df = DeviceFunction { bus: b, device: d, function: f };
                        let off = cam.cam_offset(df, r * 4);
                        total += 1;
                        // strictly increasing in lexicographic order => pairwise distinct; in window
                        if (off as i64) <= last || off >= cam.size() || off % 4 != 0 {
                            mismatches += 1;
                        }
                        last = off as i64;
                        if (b as u32 * 7 + d as u32 * 3 + f as u32 + r as u32) % 1021 == 0 || (b == 255 && d == 31 && f == 7 && r == 63) {
                            reg(json!({"e":"CamSample","cam":name,"b":b,"d":d,"f":f,"r":r * 4,"offl":limbs(off as u64,2)}));
                        }
                    }
                }
            }
        }
        // the real MmioCam reaches the function the offset decodes to
        for _ in 0..2000 {
            let (b, d, f) = (rng.r#gen::<u8>(), rng.gen_range(0..32u8), rng.gen_range(0..8u8));
            let mut fun = PciFunction::new(0x1234, 0x5678);
            fun.class_rev = rng.r#gen();
            let want = fun.class_rev;
            with_bus(|bus| {
                bus.functions.clear();
                bus.functions.insert((b, d, f), fun);
            });
            let got = mc.read_word(DeviceFunction { bus: b, device: d, function: f }, 8);
            total += 1;
            if got != want {
                mismatches += 1;
            }
        }
    }
    reg(json!({"e":"CamExhaustive","addresses":total,"mismatches":mismatches}));
    // ---------------- (3) bus enumeration and capability walking
    for k in 0..40 {
        with_bus(|b| {
            b.functions.clear();
            b.log = false;
        });
        let bus_no: u8 = rng.r#gen();
        let mut present: Vec<Value> = vec![];
        let dens = [0.0, 0.02, 0.1, 0.5, 1.0][k % 5];
        for d in 0..32u8 {
            for f in 0..8u8 {
                if rng.gen_bool(dens) {
                    let mut fun = PciFunction::new(rng.r#gen(), rng.r#gen());
                    if fun.vendor == 0xffff && fun.device == 0xffff {
                        fun.vendor = 1;
                    }
                    fun.class_rev = rng.r#gen();
                    fun.header_type = [0u8, 1, 2, 5, 0x80, 0x81][rng.gen_range(0..6)];
                    present.push(json!({"d":d,"f":f,"vendor":fun.vendor,"device":fun.device,"class":fun.class_rev >> 24,"subclass":(fun.class_rev >> 16) & 0xff,
                        "prog_if":(fun.class_rev >> 8) & 0xff,"revision":fun.class_rev & 0xff,"header":fun.header_type & 0x7f}));
                    with_bus(|b| b.functions.insert((bus_no, d, f), fun));
                }
            }
        }
        // functions on other buses must not show up
        with_bus(|b| b.functions.insert((bus_no.wrapping_add(1), 3, 0), PciFunction::new(0x1af4, 0x1041)));
        let root = PciRoot::new(ModelCam);
        let found: Vec<Value> = root
            .enumerate_bus(bus_no)
            .map(|(df, info)| {
                use virtio_drivers::transport::pci::bus::HeaderType;
                let h = match info.header_type { HeaderType::Standard => 0, HeaderType::PciPciBridge => 1, HeaderType::PciCardbusBridge => 2, HeaderType::Unrecognised(x) => x as u32 };
                json!({"d":df.device,"f":df.function,"vendor":info.vendor_id,"device":info.device_id,"class":info.class,"subclass":info.subclass,
                       "prog_if":info.prog_if,"revision":info.revision,"header":h,"bus_ok":df.bus == bus_no})
            })
            .collect();
        reg(json!({"e":"Enumerate","sc":format!("{sc}.e{k}"),"present":present,"found":found}));
    }
    for k in 0..60 {
        let n = k % 13;
        let mut offs: Vec<u8> = vec![];
        let mut cands: Vec<u8> = (16..64u8).map(|x| x * 4).collect();
        for _ in 0..n {
            let i = rng.gen_range(0..cands.len());
            offs.push(cands.remove(i));
        }
        let mut f = PciFunction::new(0x1af4, 0x1041);
        let caps: Vec<(u8, Vec<u8>)> = offs.iter().map(|o| (*o, vec![rng.r#gen::<u8>(), 0, rng.r#gen(), rng.r#gen()])).collect();
        f.set_caps(caps.clone());
        with_bus(|b| {
            b.functions.clear();
            b.functions.insert(BDF, f);
        });
        let root = PciRoot::new(ModelCam);
        let found: Vec<Value> = root.capabilities(DF).map(|c| json!({"off":c.offset,"id":c.id,"ph":c.private_header})).collect();
        let want: Vec<Value> = caps.iter().map(|(o, b)| json!({"off":o,"id":b[0],"ph":(b[2] as u32) | ((b[3] as u32) << 8)})).collect();
        reg(json!({"e":"Caps","sc":format!("{sc}.c{k}"),"chain":want,"found":found}));
    }
    lines.extend(with_world(|w| w.m_lines(&[])));
    mmio::unmap_all();
    let n = lines.len();
    (lines, json!({"events": n, "bar_info_calls": nbar, "cam_addresses": total, "cam_mismatches": mismatches}))
}

pub fn run(p: &PciParams, sc: &str) -> (Vec<String>, Value) {
    match p.mode.as_str() {
        "new" => run_new(p, sc),
        "ops" => run_ops(p, sc),
        _ => run_bus(p, sc),
    }
}

pub fn all_params(mode: &str, thorough: bool, seed: u64) -> Vec<PciParams> {
    let mut v = vec![];
    let s = seed.wrapping_mul(104_729);
    match mode {
        "new" => {
            for k in 0..(if thorough { 56 } else { 14 }) {
                v.push(PciParams { mode: "new".into(), seed: s + k, count: if thorough { 1500 } else { 600 }, cam: k % 4 == 3 });
            }
        }
        "ops" => {
            for k in 0..(if thorough { 28 } else { 8 }) {
                v.push(PciParams { mode: "ops".into(), seed: s + 1000 + k, count: 4, cam: k % 2 == 1 });
            }
        }
        _ => v.push(PciParams { mode: "bus".into(), seed: s + 2000, count: 1, cam: false }),
    }
    v
}
