//! `ModelTransport`: an implementation of the public `Transport` trait that logs every call, keeps
//! the device-side view (status, negotiated features, queue registrations) and hands notifications
//! to the scenario's device.

use crate::core::*;
use serde_json::json;
use std::cell::RefCell;
use virtio_drivers::transport::{DeviceStatus, DeviceType, InterruptStatus, Transport};
use virtio_drivers::{Error, PhysAddr, Result};
use zerocopy::{FromBytes, Immutable, IntoBytes};

thread_local! {
    /// called for every `notify(queue)`
    pub static NOTIFY_CB: RefCell<Option<Box<dyn FnMut(u16)>>> = const { RefCell::new(None) };
    /// called before every config-space / generation read with (kind, offset): lets the scenario's
    /// device change its configuration between individual reads
    pub static CFG_CB: RefCell<Option<Box<dyn FnMut(&str, usize)>>> = const { RefCell::new(None) };
}

thread_local! {
    /// feature bits the driver accepted, as the device saw them (any transport)
    pub static NEGOTIATED: std::cell::Cell<u64> = const { std::cell::Cell::new(0) };
}
pub fn set_negotiated(n: u64) {
    NEGOTIATED.with(|c| c.set(n));
}
pub fn negotiated() -> u64 {
    NEGOTIATED.with(|c| c.get())
}

pub fn set_notify_cb(cb: Option<Box<dyn FnMut(u16)>>) {
    NOTIFY_CB.with(|c| *c.borrow_mut() = cb);
}
pub fn set_cfg_cb(cb: Option<Box<dyn FnMut(&str, usize)>>) {
    CFG_CB.with(|c| *c.borrow_mut() = cb);
}
pub fn call_notify_cb(q: u16) {
    let cb = NOTIFY_CB.with(|c| c.borrow_mut().take());
    if let Some(mut cb) = cb {
        cb(q);
        NOTIFY_CB.with(|c| {
            let mut s = c.borrow_mut();
            if s.is_none() {
                *s = Some(cb);
            }
        });
    }
}
pub fn call_cfg_cb(kind: &str, off: usize) {
    let cb = CFG_CB.with(|c| c.borrow_mut().take());
    if let Some(mut cb) = cb {
        cb(kind, off);
        CFG_CB.with(|c| {
            let mut s = c.borrow_mut();
            if s.is_none() {
                *s = Some(cb);
            }
        });
    }
}

/// Device-side state shared between the transport object (owned by the driver) and the scenario.
pub struct TState {
    pub device_type: DeviceType,
    pub offered: u64,
    pub negotiated: u64,
    pub status: u32,
    pub legacy: bool,
    pub max_queue_size: Vec<u32>,
    pub queue_in_use: Vec<bool>,
    pub config: Vec<u8>,
    pub config_gen: u32,
    pub isr: u32,
    pub dropped: bool,
}

thread_local! {
    pub static TSTATE: RefCell<Option<TState>> = const { RefCell::new(None) };
}
pub fn with_t<R>(f: impl FnOnce(&mut TState) -> R) -> R {
    TSTATE.with(|t| f(t.borrow_mut().as_mut().expect("transport state")))
}
pub fn install_t(t: TState) {
    TSTATE.with(|s| *s.borrow_mut() = Some(t));
}

pub struct ModelTransport;

impl ModelTransport {
    pub fn new(device_type: DeviceType, offered: u64, legacy: bool, queues: usize, max_size: u32, config: Vec<u8>) -> Self {
        install_t(TState {
            device_type,
            offered,
            negotiated: 0,
            status: 0,
            legacy,
            max_queue_size: vec![max_size; queues],
            queue_in_use: vec![false; queues],
            config,
            config_gen: 0,
            isr: 0,
            dropped: false,
        });
        with_world(|w| {
            w.dev(json!({"e":"TNew","dev":device_type as u32,"offered":hex(offered),"offl":limbs(offered,4),
                         "legacy":legacy,"queues":queues,"max":max_size}))
        });
        ModelTransport
    }
}

fn tev(v: serde_json::Value) {
    with_world(|w| w.dev(v));
}

impl Transport for ModelTransport {
    fn device_type(&self) -> DeviceType {
        with_t(|t| t.device_type)
    }
    fn read_device_features(&mut self) -> u64 {
        let f = with_t(|t| t.offered);
        tev(json!({"e":"T","op":"read_features","v":hex(f)}));
        f
    }
    fn write_driver_features(&mut self, driver_features: u64) {
        with_t(|t| t.negotiated = driver_features);
        set_negotiated(driver_features);
        tev(json!({"e":"T","op":"write_features","v":hex(driver_features),"vl":limbs(driver_features,4)}));
    }
    fn max_queue_size(&mut self, queue: u16) -> u32 {
        let v = with_t(|t| t.max_queue_size.get(queue as usize).copied().unwrap_or(0));
        tev(json!({"e":"T","op":"max_queue_size","q":queue,"v":v}));
        v
    }
    fn notify(&mut self, queue: u16) {
        let st = with_t(|t| t.status);
        tev(json!({"e":"T","op":"notify","q":queue,"status":st}));
        with_world(|w| w.qev(queue, json!({"e":"Notify"})));
        call_notify_cb(queue);
    }
    fn get_status(&self) -> DeviceStatus {
        let v = with_t(|t| t.status);
        tev(json!({"e":"T","op":"get_status","v":v}));
        DeviceStatus::from_bits_retain(v)
    }
    fn set_status(&mut self, status: DeviceStatus) {
        let v = status.bits();
        with_t(|t| {
            t.status = v;
            if v == 0 {
                for u in t.queue_in_use.iter_mut() {
                    *u = false;
                }
            }
        });
        if v == 0 {
            with_world(|w| {
                for (_, q) in w.queues.iter_mut() {
                    q.live = false;
                }
            });
        }
        tev(json!({"e":"T","op":"set_status","v":v}));
    }
    fn set_guest_page_size(&mut self, guest_page_size: u32) {
        tev(json!({"e":"T","op":"set_guest_page_size","v":guest_page_size}));
    }
    fn requires_legacy_layout(&self) -> bool {
        with_t(|t| t.legacy)
    }
    fn queue_set(&mut self, queue: u16, size: u32, descriptors: PhysAddr, driver_area: PhysAddr, device_area: PhysAddr) {
        let st = with_t(|t| {
            if let Some(u) = t.queue_in_use.get_mut(queue as usize) {
                *u = true;
            }
            t.status
        });
        tev(json!({"e":"T","op":"queue_set","q":queue,"size":size,"desc":hex(descriptors),"avail":hex(driver_area),
                   "used":hex(device_area),"descl":limbs(descriptors,4),"availl":limbs(driver_area,4),
                   "usedl":limbs(device_area,4),"status":st}));
        with_world(|w| w.queue_register(queue, size as usize, descriptors, driver_area, device_area));
    }
    fn queue_unset(&mut self, queue: u16) {
        with_t(|t| {
            if let Some(u) = t.queue_in_use.get_mut(queue as usize) {
                *u = false;
            }
        });
        with_world(|w| {
            if let Some(q) = w.queues.get_mut(&queue) {
                q.live = false;
            }
        });
        tev(json!({"e":"T","op":"queue_unset","q":queue}));
    }
    fn queue_used(&mut self, queue: u16) -> bool {
        let v = with_t(|t| t.queue_in_use.get(queue as usize).copied().unwrap_or(false));
        tev(json!({"e":"T","op":"queue_used","q":queue,"v":v}));
        v
    }
    fn ack_interrupt(&mut self) -> InterruptStatus {
        let v = with_t(|t| std::mem::take(&mut t.isr));
        tev(json!({"e":"T","op":"ack_interrupt","v":v}));
        InterruptStatus::from_bits_retain(v)
    }
    fn read_config_generation(&self) -> u32 {
        call_cfg_cb("gen", 0);
        let v = with_t(|t| t.config_gen);
        tev(json!({"e":"T","op":"cfg_gen","v":v}));
        v
    }
    fn read_config_space<T: FromBytes + IntoBytes>(&self, offset: usize) -> Result<T> {
        call_cfg_cb("read", offset);
        let size = size_of::<T>();
        let r = with_t(|t| {
            if t.config.is_empty() {
                Err(Error::ConfigSpaceMissing)
            } else if offset.checked_add(size).map(|e| e > t.config.len()).unwrap_or(true) {
                Err(Error::ConfigSpaceTooSmall)
            } else {
                Ok(T::read_from_bytes(&t.config[offset..offset + size]).unwrap())
            }
        });
        tev(json!({"e":"T","op":"cfg_read","off":offset,"size":size,"ok":r.is_ok()}));
        r
    }
    fn write_config_space<T: IntoBytes + Immutable>(&mut self, offset: usize, value: T) -> Result<()> {
        let size = size_of::<T>();
        let r = with_t(|t| {
            if t.config.is_empty() {
                Err(Error::ConfigSpaceMissing)
            } else if offset.checked_add(size).map(|e| e > t.config.len()).unwrap_or(true) {
                Err(Error::ConfigSpaceTooSmall)
            } else {
                t.config[offset..offset + size].copy_from_slice(value.as_bytes());
                Ok(())
            }
        });
        tev(json!({"e":"T","op":"cfg_write","off":offset,"size":size,"ok":r.is_ok(),
                   "bytes": value.as_bytes().iter().map(|b| *b as u32).collect::<Vec<u32>>()}));
        r
    }
}

impl Drop for ModelTransport {
    fn drop(&mut self) {
        // like the real transports: reset the device
        with_t(|t| {
            t.status = 0;
            t.dropped = true;
            for u in t.queue_in_use.iter_mut() {
                *u = false;
            }
        });
        with_world(|w| {
            for (_, q) in w.queues.iter_mut() {
                q.live = false;
            }
            w.dev(json!({"e":"T","op":"drop"}));
        });
    }
}
