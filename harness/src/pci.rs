//! PCI world: emulated functions (configuration space with command register, BARs with
//! hard-wired bits, capability chain), a bus of them behind both configuration access mechanisms
//! (a direct `ConfigurationAccess` and the real `MmioCam` over the MMIO world), and a
//! register-level virtio-pci device (common / notify / ISR / device-cfg structures inside BARs).

use crate::core::*;
use crate::mmio::{self, MmioDev, log_access};
use crate::transport::{call_cfg_cb, call_notify_cb};
use serde_json::{Value, json};
use std::cell::RefCell;
use std::collections::BTreeMap;
use std::rc::Rc;
use virtio_drivers::transport::pci::bus::{Cam, ConfigurationAccess, DeviceFunction};

#[derive(Clone, Debug, PartialEq)]
pub enum BarKind {
    None,
    /// size in bytes (power of two >= 4); `hi16_zero`: upper 16 address bits hard-wired to zero
    Io { size: u64, hi16_zero: bool },
    /// 32-bit memory BAR; `below_1m` sets the type field to 01
    Mem32 { size: u64, prefetch: bool, below_1m: bool },
    /// 64-bit memory BAR (occupies this slot and the next)
    Mem64 { size: u64, prefetch: bool },
    /// the upper half of the preceding 64-bit BAR
    Upper,
    /// malformed: type field 0b11 (reserved)
    MemReserved { size: u64 },
}

#[derive(Clone, Debug)]
pub struct Capability {
    pub offset: u8,
    pub next: u8,
    pub bytes: Vec<u8>, // starting at the id byte; bytes[1] (next) is overwritten by `next`
}

#[derive(Clone, Debug)]
pub struct PciFunction {
    pub vendor: u16,
    pub device: u16,
    pub command: u16,
    pub status: u16,
    pub class_rev: u32,
    pub header_type: u8,
    pub bars: [BarKind; 6],
    /// programmed address registers (raw register values without flag bits)
    pub bar_regs: [u32; 6],
    pub cap_ptr: u8,
    pub caps: Vec<Capability>,
    /// other registers written by the driver: offset -> value (behave as plain read/write storage)
    pub other: BTreeMap<u8, u32>,
    pub stray_writes: Vec<(u8, u32)>,
    /// BAR writes performed while IO/MEMORY decoding was enabled: (slot, value)
    pub writes_while_decoding: Vec<(u8, u32)>,
}

pub const COMMAND_WRITABLE: u16 = 0x077f;

impl PciFunction {
    pub fn new(vendor: u16, device: u16) -> Self {
        PciFunction {
            vendor,
            device,
            command: 0,
            status: 0,
            class_rev: 0x0200_0001,
            header_type: 0,
            bars: [BarKind::None, BarKind::None, BarKind::None, BarKind::None, BarKind::None, BarKind::None],
            bar_regs: [0; 6],
            cap_ptr: 0,
            caps: vec![],
            other: BTreeMap::new(),
            stray_writes: vec![],
            writes_while_decoding: vec![],
        }
    }

    /// (writable mask, flag bits) of BAR register `i`.
    pub fn bar_mask_flags(&self, i: usize) -> (u32, u32) {
        match &self.bars[i] {
            BarKind::None => (0, 0),
            BarKind::Io { size, hi16_zero } => {
                let mut m = !((*size as u32).wrapping_sub(1)) & 0xffff_fffc;
                if *hi16_zero {
                    m &= 0x0000_ffff;
                }
                (m, 1)
            }
            BarKind::Mem32 { size, prefetch, below_1m } => {
                (!((*size as u32).wrapping_sub(1)) & 0xffff_fff0, (if *prefetch { 8 } else { 0 }) | (if *below_1m { 2 } else { 0 }))
            }
            BarKind::Mem64 { size, prefetch } => {
                let m = !(size.wrapping_sub(1));
                ((m as u32) & 0xffff_fff0, 4 | (if *prefetch { 8 } else { 0 }))
            }
            BarKind::Upper => {
                if let BarKind::Mem64 { size, .. } = &self.bars[i - 1] {
                    ((!(size.wrapping_sub(1)) >> 32) as u32, 0)
                } else {
                    (0, 0)
                }
            }
            BarKind::MemReserved { size } => (!((*size as u32).wrapping_sub(1)) & 0xffff_fff0, 6),
        }
    }

    pub fn set_bar_address(&mut self, i: usize, addr: u64) {
        let (m, _) = self.bar_mask_flags(i);
        self.bar_regs[i] = (addr as u32) & m;
        if matches!(self.bars[i], BarKind::Mem64 { .. }) && i < 5 {
            let (m2, _) = self.bar_mask_flags(i + 1);
            self.bar_regs[i + 1] = ((addr >> 32) as u32) & m2;
        }
    }
    pub fn bar_address(&self, i: usize) -> u64 {
        let lo = self.bar_regs[i] as u64;
        if matches!(self.bars[i], BarKind::Mem64 { .. }) && i < 5 { lo | ((self.bar_regs[i + 1] as u64) << 32) } else { lo }
    }

    pub fn read(&self, off: u8) -> u32 {
        let off = off & 0xfc;
        match off {
            0x00 => (self.device as u32) << 16 | self.vendor as u32,
            0x04 => (self.status as u32) << 16 | self.command as u32,
            0x08 => self.class_rev,
            0x0c => (self.header_type as u32) << 16,
            0x10..=0x24 => {
                let i = ((off - 0x10) / 4) as usize;
                let (_, f) = self.bar_mask_flags(i);
                self.bar_regs[i] | f
            }
            0x34 => self.cap_ptr as u32,
            _ => {
                if let Some(v) = self.other.get(&off) {
                    return *v;
                }
                for c in &self.caps {
                    let len = c.bytes.len().next_multiple_of(4);
                    if (off as usize) >= c.offset as usize && (off as usize) < c.offset as usize + len {
                        let k = (off - c.offset) as usize;
                        let mut w = [0u8; 4];
                        for j in 0..4 {
                            w[j] = c.bytes.get(k + j).copied().unwrap_or(0);
                            if k + j == 1 {
                                w[j] = c.next;
                            }
                        }
                        return u32::from_le_bytes(w);
                    }
                }
                0
            }
        }
    }

    pub fn write(&mut self, off: u8, v: u32) {
        let off = off & 0xfc;
        match off {
            0x04 => self.command = (v as u16) & COMMAND_WRITABLE,
            0x10..=0x24 => {
                let i = ((off - 0x10) / 4) as usize;
                let (m, _) = self.bar_mask_flags(i);
                let newv = v & m;
                if newv != self.bar_regs[i] && self.command & 3 != 0 {
                    self.writes_while_decoding.push((i as u8, v));
                }
                self.bar_regs[i] = newv;
            }
            _ => {
                self.stray_writes.push((off, v));
                self.other.insert(off, v);
            }
        }
    }

    /// Lay out a capability chain from (id, payload-after-next-byte) entries at the given offsets.
    pub fn set_caps(&mut self, caps: Vec<(u8, Vec<u8>)>) {
        self.caps.clear();
        for (k, (offset, bytes)) in caps.iter().enumerate() {
            let next = caps.get(k + 1).map(|c| c.0).unwrap_or(0);
            self.caps.push(Capability { offset: *offset, next, bytes: bytes.clone() });
        }
        if let Some(c) = caps.first() {
            self.cap_ptr = c.0;
            self.status |= 0x10;
        } else {
            self.cap_ptr = 0;
            self.status &= !0x10;
        }
    }

    pub fn snapshot(&self) -> Value {
        json!({"cmd": self.command, "regs": self.bar_regs.iter().map(|b| limbs(*b as u64, 2)).collect::<Vec<_>>(),
               "other": (0u8..64).map(|w| self.read(w * 4)).filter(|_| false).collect::<Vec<u32>>(),
               "digest": crate::out::fnv64(&(0u8..64).flat_map(|w| self.read(w * 4).to_le_bytes()).collect::<Vec<u8>>())})
    }
}

/// A virtio vendor capability (Virtio 1.2 4.1.4): bytes starting at cap_vndr.
pub fn virtio_cap(cap_len: u8, cfg_type: u8, bar: u8, offset: u32, length: u32, mult: Option<u32>) -> Vec<u8> {
    let mut b = vec![0x09, 0, cap_len, cfg_type, bar, 0, 0, 0];
    b.extend(offset.to_le_bytes());
    b.extend(length.to_le_bytes());
    if let Some(m) = mult {
        b.extend(m.to_le_bytes());
    }
    b
}

// ------------------------------------------------------------------------------------------------
pub struct PciBusModel {
    pub functions: BTreeMap<(u8, u8, u8), PciFunction>,
    pub log: bool,
}

thread_local! {
    pub static BUS: RefCell<PciBusModel> = RefCell::new(PciBusModel { functions: BTreeMap::new(), log: true });
}
pub fn with_bus<R>(f: impl FnOnce(&mut PciBusModel) -> R) -> R {
    BUS.with(|b| f(&mut b.borrow_mut()))
}
pub fn reset_bus() {
    with_bus(|b| {
        b.functions.clear();
        b.log = true;
    });
}

fn cfg_read(bdf: (u8, u8, u8), off: u8, via: &str) -> u32 {
    let (v, log) = with_bus(|b| (b.functions.get(&bdf).map(|f| f.read(off)).unwrap_or(0xffff_ffff), b.log));
    if log {
        with_world(|w| w.reg(json!({"e":"Cfg","rw":"r","b":bdf.0,"d":bdf.1,"f":bdf.2,"off":off,"v":hex(v as u64),"vl":limbs(v as u64,2),"via":via})));
    }
    v
}
fn cfg_write(bdf: (u8, u8, u8), off: u8, v: u32, via: &str) {
    let log = with_bus(|b| {
        if let Some(f) = b.functions.get_mut(&bdf) {
            f.write(off, v);
        }
        b.log
    });
    if log {
        with_world(|w| w.reg(json!({"e":"Cfg","rw":"w","b":bdf.0,"d":bdf.1,"f":bdf.2,"off":off,"v":hex(v as u64),"vl":limbs(v as u64,2),"via":via})));
    }
}

/// Direct configuration access front end.
pub struct ModelCam;
impl ConfigurationAccess for ModelCam {
    fn read_word(&self, df: DeviceFunction, register_offset: u8) -> u32 {
        cfg_read((df.bus, df.device, df.function), register_offset, "model")
    }
    fn write_word(&mut self, df: DeviceFunction, register_offset: u8, data: u32) {
        cfg_write((df.bus, df.device, df.function), register_offset, data, "model")
    }
    unsafe fn unsafe_clone(&self) -> Self {
        ModelCam
    }
}

/// The CAM / ECAM region behind the real `MmioCam`: decodes the offset back into (b, d, f, reg).
pub struct CamDev {
    pub cam: Cam,
}
impl CamDev {
    fn decode(&self, off: usize) -> ((u8, u8, u8), u8) {
        let (shift, mask) = match self.cam {
            Cam::MmioCam => (8, 0xff),
            Cam::Ecam => (12, 0xfff),
        };
        let bdf = off >> shift;
        let reg = off & mask;
        if reg > 0xff {
            with_world(|w| w.reg(json!({"e":"CamStray","off":hex(off as u64)})));
        }
        (((bdf >> 8) as u8, ((bdf >> 3) & 31) as u8, (bdf & 7) as u8), reg as u8)
    }
}
impl MmioDev for CamDev {
    fn read(&mut self, off: usize, width: u8) -> u64 {
        let (bdf, reg) = self.decode(off);
        if width != 4 {
            with_world(|w| w.reg(json!({"e":"CamStray","off":hex(off as u64),"w":width})));
        }
        cfg_read(bdf, reg, "cam") as u64
    }
    fn write(&mut self, off: usize, width: u8, v: u64) {
        let (bdf, reg) = self.decode(off);
        if width != 4 {
            with_world(|w| w.reg(json!({"e":"CamStray","off":hex(off as u64),"w":width})));
        }
        cfg_write(bdf, reg, v as u32, "cam")
    }
}

/// Map a CAM/ECAM window (address reservation only) and return its base.
pub fn map_cam(cam: Cam) -> *mut u8 {
    mmio::map(cam.size() as usize, Rc::new(RefCell::new(CamDev { cam })), "cam", 0)
}

// ------------------------------------------------------------------------------------------------
#[derive(Clone, Default, Debug)]
pub struct PciQueue {
    pub size: u16,
    pub enable: u16,
    pub notify_off: u16,
    pub desc: u64,
    pub driver: u64,
    pub device: u64,
    pub msix: u16,
}

/// Device-side state of a modern virtio-pci function.
pub struct VirtioPciDev {
    pub offered: u64,
    pub dfs: u32,
    pub gfs: u32,
    pub negotiated: u64,
    pub msix_config: u16,
    pub status: u8,
    pub config_gen: u8,
    pub queue_sel: u16,
    pub queues: Vec<PciQueue>,
    pub isr: u8,
    pub config: Vec<u8>,
    pub notify_mult: u32,
    /// number of status reads that still return the old value after a reset was requested
    pub reset_lag: u32,
    pub reset_pending: u32,
    pub semantic: bool,
}

impl VirtioPciDev {
    pub fn new(offered: u64, nqueues: usize, max_size: u16, config: Vec<u8>, notify_mult: u32) -> Self {
        VirtioPciDev {
            offered,
            dfs: 0,
            gfs: 0,
            negotiated: 0,
            msix_config: 0xffff,
            status: 0,
            config_gen: 0,
            queue_sel: 0,
            queues: (0..nqueues).map(|i| PciQueue { size: max_size, notify_off: i as u16, ..Default::default() }).collect(),
            isr: 0,
            config,
            notify_mult,
            reset_lag: 0,
            reset_pending: 0,
            semantic: true,
        }
    }
    fn tev(&self, v: Value) {
        if self.semantic {
            with_world(|w| w.dev(v));
        }
    }
    fn q(&mut self) -> Option<&mut PciQueue> {
        let s = self.queue_sel as usize;
        self.queues.get_mut(s)
    }
    fn do_reset(&mut self) {
        self.status = 0;
        self.negotiated = 0;
        self.dfs = 0;
        self.gfs = 0;
        self.queue_sel = 0;
        self.isr = 0;
        for q in self.queues.iter_mut() {
            q.enable = 0;
            q.desc = 0;
            q.driver = 0;
            q.device = 0;
        }
        if self.semantic {
            with_world(|w| {
                for (_, q) in w.queues.iter_mut() {
                    q.live = false;
                }
            });
        }
    }
    fn apply_pending(&mut self) {
        if let Some((g, bytes)) = mmio::PENDING_CFG.with(|p| p.borrow_mut().take()) {
            self.config = bytes;
            self.config_gen = g as u8;
        }
    }

    pub fn common_read(&mut self, off: usize, width: u8) -> u64 {
        let v: u64 = match off {
            0 => self.dfs as u64,
            4 => {
                if self.dfs == 0 {
                    self.tev(json!({"e":"T","op":"read_features","v":hex(self.offered)}));
                    self.offered & 0xffff_ffff
                } else if self.dfs == 1 {
                    self.offered >> 32
                } else {
                    0
                }
            }
            8 => self.gfs as u64,
            12 => if self.gfs == 0 { self.negotiated & 0xffff_ffff } else { self.negotiated >> 32 },
            16 => self.msix_config as u64,
            18 => self.queues.len() as u64,
            20 => {
                if self.reset_pending > 0 {
                    self.reset_pending -= 1;
                    if self.reset_pending == 0 {
                        self.do_reset();
                        0
                    } else {
                        self.status as u64
                    }
                } else {
                    self.status as u64
                }
            }
            21 => {
                call_cfg_cb("gen", 0);
                self.apply_pending();
                self.tev(json!({"e":"T","op":"cfg_gen","v":self.config_gen}));
                self.config_gen as u64
            }
            22 => self.queue_sel as u64,
            24 => self.queues.get(self.queue_sel as usize).map(|q| q.size).unwrap_or(0) as u64,
            26 => self.queues.get(self.queue_sel as usize).map(|q| q.msix).unwrap_or(0) as u64,
            28 => self.queues.get(self.queue_sel as usize).map(|q| q.enable).unwrap_or(0) as u64,
            30 => self.queues.get(self.queue_sel as usize).map(|q| q.notify_off).unwrap_or(0) as u64,
            32 | 36 | 40 | 44 | 48 | 52 => {
                let q = self.queues.get(self.queue_sel as usize).cloned().unwrap_or_default();
                let full = match off & !7 { 32 => q.desc, 40 => q.driver, _ => q.device };
                if width == 8 { full } else if off & 4 == 0 { full & 0xffff_ffff } else { full >> 32 }
            }
            _ => 0,
        };
        log_access("common", "r", off, width, v);
        v
    }

    pub fn common_write(&mut self, off: usize, width: u8, v: u64) {
        log_access("common", "w", off, width, v);
        match off {
            0 => self.dfs = v as u32,
            8 => self.gfs = v as u32,
            12 => {
                if self.gfs == 0 {
                    self.negotiated = (self.negotiated & !0xffff_ffff) | (v & 0xffff_ffff);
                } else if self.gfs == 1 {
                    self.negotiated = (self.negotiated & 0xffff_ffff) | ((v & 0xffff_ffff) << 32);
                    let n = self.negotiated;
                    self.tev(json!({"e":"T","op":"write_features","v":hex(n),"vl":limbs(n,4)}));
                    if self.semantic {
                        crate::transport::set_negotiated(n);
                    }
                }
            }
            16 => self.msix_config = v as u16,
            20 => {
                let s = v as u8;
                self.tev(json!({"e":"T","op":"set_status","v":s}));
                if s == 0 {
                    if self.reset_lag > 0 {
                        self.reset_pending = self.reset_lag + 1;
                    } else {
                        self.do_reset();
                    }
                } else {
                    self.status = s;
                }
            }
            22 => self.queue_sel = v as u16,
            24 => {
                if let Some(q) = self.q() {
                    q.size = v as u16;
                }
            }
            26 => {
                if let Some(q) = self.q() {
                    q.msix = v as u16;
                }
            }
            28 => {
                let was = self.q().map(|q| q.enable).unwrap_or(0);
                if let Some(q) = self.q() {
                    q.enable = v as u16;
                }
                if v as u16 == 1 && was == 0 {
                    let qi = self.queue_sel;
                    let st = self.status;
                    if let Some(q) = self.q().cloned() {
                        self.tev(json!({"e":"T","op":"queue_set","q":qi,"size":q.size,"desc":hex(q.desc),"avail":hex(q.driver),"used":hex(q.device),
                                        "descl":limbs(q.desc,4),"availl":limbs(q.driver,4),"usedl":limbs(q.device,4),"status":st}));
                        if self.semantic && q.size > 0 && q.size.is_power_of_two() {
                            with_world(|w| w.queue_register(qi, q.size as usize, q.desc, q.driver, q.device));
                        }
                    }
                }
            }
            32 | 36 | 40 | 44 | 48 | 52 => {
                if let Some(q) = self.q() {
                    let f = match off & !7 { 32 => &mut q.desc, 40 => &mut q.driver, _ => &mut q.device };
                    if width == 8 {
                        *f = v;
                    } else if off & 4 == 0 {
                        *f = (*f & !0xffff_ffff) | (v & 0xffff_ffff);
                    } else {
                        *f = (*f & 0xffff_ffff) | ((v & 0xffff_ffff) << 32);
                    }
                }
            }
            _ => {}
        }
    }

    pub fn notify_write(&mut self, off: usize, width: u8, v: u64) {
        log_access("notify", "w", off, width, v);
        let st = self.status;
        // which queue is notified is determined by the offset
        let q = self.queues.iter().position(|q| q.notify_off as usize * self.notify_mult as usize == off);
        self.tev(json!({"e":"T","op":"notify","q":v,"status":st,"off":off,"by_off":q.map(|x| x as i64).unwrap_or(-1)}));
        if self.semantic {
            with_world(|w| w.qev(v as u16, json!({"e":"Notify"})));
            call_notify_cb(v as u16);
        }
    }
    pub fn isr_read(&mut self, off: usize, width: u8) -> u64 {
        let v = std::mem::take(&mut self.isr) as u64;
        log_access("isr", "r", off, width, v);
        v
    }
    pub fn cfg_read(&mut self, off: usize, width: u8) -> u64 {
        call_cfg_cb("read", off);
        self.apply_pending();
        let mut v = 0u64;
        for i in 0..width as usize {
            v |= (self.config.get(off + i).copied().unwrap_or(0xee) as u64) << (8 * i);
        }
        log_access("devcfg", "r", off, width, v);
        self.tev(json!({"e":"T","op":"cfg_read","off":off,"size":width,"ok":true}));
        v
    }
    pub fn cfg_write(&mut self, off: usize, width: u8, v: u64) {
        log_access("devcfg", "w", off, width, v);
        for i in 0..width as usize {
            if let Some(b) = self.config.get_mut(off + i) {
                *b = (v >> (8 * i)) as u8;
            }
        }
        self.tev(json!({"e":"T","op":"cfg_write","off":off,"size":width,"ok":true}));
    }
}

/// One memory BAR as an MMIO window: dispatches by offset to the structures placed in it.
pub struct BarDev {
    pub dev: Rc<RefCell<VirtioPciDev>>,
    /// (structure, offset, length): "common" | "notify" | "isr" | "devcfg"
    pub layout: Vec<(&'static str, usize, usize)>,
    pub bar: u8,
}
impl BarDev {
    fn find(&self, off: usize, width: usize) -> Option<(&'static str, usize)> {
        for (s, o, l) in &self.layout {
            if off >= *o && off + width <= *o + *l {
                return Some((s, off - *o));
            }
        }
        None
    }
}
impl MmioDev for BarDev {
    fn read(&mut self, off: usize, width: u8) -> u64 {
        match self.find(off, width as usize) {
            Some(("common", o)) => self.dev.borrow_mut().common_read(o, width),
            Some(("isr", o)) => self.dev.borrow_mut().isr_read(o, width),
            Some(("devcfg", o)) => self.dev.borrow_mut().cfg_read(o, width),
            other => {
                with_world(|w| w.reg(json!({"e":"BarStray","rw":"r","bar":self.bar,"off":off,"w":width,"in":other.map(|x| x.0).unwrap_or("none")})));
                0
            }
        }
    }
    fn write(&mut self, off: usize, width: u8, v: u64) {
        match self.find(off, width as usize) {
            Some(("common", o)) => self.dev.borrow_mut().common_write(o, width, v),
            Some(("notify", o)) => self.dev.borrow_mut().notify_write(o, width, v),
            Some(("devcfg", o)) => self.dev.borrow_mut().cfg_write(o, width, v),
            other => with_world(|w| w.reg(json!({"e":"BarStray","rw":"w","bar":self.bar,"off":off,"w":width,"in":other.map(|x| x.0).unwrap_or("none")}))),
        }
    }
}

thread_local! {
    /// advertise the device-configuration window with exactly the given length (default: rounded
    /// up to whole 32-bit words, as the driver-level families' configuration spaces assume)
    pub static EXACT_CFG_LEN: std::cell::Cell<bool> = const { std::cell::Cell::new(false) };
}

thread_local! {
    /// add duplicate notify / device-config capabilities AFTER the standard ones (multiplier + 2,
    /// window 8 bytes longer): only the first capability of each type counts
    pub static DUP_CAPS: std::cell::Cell<bool> = const { std::cell::Cell::new(false) };
}

/// A standard, well-formed virtio-pci function: all structures in a 64-bit BAR 4 (like QEMU).
/// Returns the device state; the function is installed on the bus at `bdf` and its BAR mapped.
pub fn install_standard(bdf: (u8, u8, u8), dev_type: u32, dev: VirtioPciDev, cfg_len: usize, with_devcfg: bool) -> Rc<RefCell<VirtioPciDev>> {
    let mult = dev.notify_mult;
    let nq = dev.queues.len();
    let dev = Rc::new(RefCell::new(dev));
    let mut f = PciFunction::new(0x1af4, 0x1040 + dev_type as u16);
    f.bars[1] = BarKind::Io { size: 0x20, hi16_zero: false };
    f.bars[4] = BarKind::Mem64 { size: 0x4000, prefetch: true };
    f.bars[5] = BarKind::Upper;
    let bar_pa: u64 = 0x0000_00a0_0000_0000 + ((bdf.1 as u64) << 24);
    f.set_bar_address(4, bar_pa);
    f.set_bar_address(1, 0xc000);
    f.command = 0x0007;
    let notify_len = std::cmp::max(2, 2 * nq * mult as usize + 2);
    let cfg_words = if EXACT_CFG_LEN.with(|e| e.get()) { cfg_len } else { cfg_len.div_ceil(4) * 4 };
    let mut caps = vec![
        (0x40u8, vec![0x05, 0, 0x80, 0, 0, 0, 0, 0, 0, 0, 0, 0]), // MSI (foreign capability)
        (0x50, virtio_cap(16, 1, 4, 0x0000, 0x38, None)),
        (0x60, virtio_cap(16, 3, 4, 0x1000, 4, None)),
        (0x70, virtio_cap(20, 2, 4, 0x3000, notify_len as u32, Some(mult))),
        (0x88, virtio_cap(20, 5, 0, 0, 0, None)), // PCI configuration access capability
    ];
    if with_devcfg {
        caps.insert(3, (0x98, virtio_cap(16, 4, 4, 0x2000, cfg_words as u32, None)));
    }
    if DUP_CAPS.with(|d| d.get()) {
        caps.push((0xb0, virtio_cap(20, 2, 4, 0x3000, notify_len as u32, Some(mult + 2))));
        if with_devcfg {
            caps.push((0xc8, virtio_cap(16, 4, 4, 0x2000, cfg_words as u32 + 8, None)));
        }
    }
    f.set_caps(caps);
    with_bus(|b| b.functions.insert(bdf, f));
    let mut layout = vec![("common", 0usize, 0x38usize), ("isr", 0x1000, 4), ("notify", 0x3000, notify_len)];
    if with_devcfg {
        layout.push(("devcfg", 0x2000, cfg_words));
    }
    mmio::map(0x4000, Rc::new(RefCell::new(BarDev { dev: dev.clone(), layout, bar: 4 })), "bar4", bar_pa);
    dev
}
