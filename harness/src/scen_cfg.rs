//! Family `cfg` (C13, torn reads): the multi-field configuration readers of the drivers (block
//! capacity, socket CID, console size, MAC address, 9P mount tag) against a device that replaces
//! its configuration before chosen individual accesses.

use crate::core::*;
use crate::hooks;
use crate::transport::*;
use crate::zoo;
use serde_json::{Value, json};
use std::cell::RefCell;
use std::panic::{AssertUnwindSafe, catch_unwind};
use std::rc::Rc;
use virtio_drivers::device::blk::VirtIOBlk;
use virtio_drivers::device::console::VirtIOConsole;
use virtio_drivers::device::net::VirtIONetRaw;
use virtio_drivers::device::socket::VirtIOSocket;
use virtio_drivers::device::virtio_9p::VirtIO9p;
use virtio_drivers::transport::Transport;

#[derive(Clone, Debug)]
pub struct CfgParams {
    pub reader: String, // blk | socket | console | netraw | 9p
    pub transport: String, // model | mmio
    /// the device updates its configuration before the accesses with these indices (0-based,
    /// counting generation and field accesses from the start of construction)
    pub at: Vec<usize>,
    /// generation the device starts with, and what it adds for every update (a device may use
    /// any value different from the previous one: counters wrap, 8-bit counters restart)
    pub gen0: u32,
    pub step: u32,
}
impl CfgParams {
    pub fn to_json(&self) -> Value {
        json!({"family":"cfg","reader":self.reader,"transport":self.transport,"at":self.at,"gen0":hex(self.gen0 as u64),"step":hex(self.step as u64)})
    }
    pub fn from_json(v: &Value) -> Self {
        CfgParams {
            reader: v["reader"].as_str().unwrap().into(),
            transport: v["transport"].as_str().unwrap().into(),
            at: v["at"].as_array().unwrap().iter().map(|x| x.as_u64().unwrap() as usize).collect(),
            gen0: v["gen0"].as_str().map(|s| u32::from_str_radix(s.trim_start_matches("0x"), 16).unwrap()).unwrap_or(0),
            step: v["step"].as_str().map(|s| u32::from_str_radix(s.trim_start_matches("0x"), 16).unwrap()).unwrap_or(1),
        }
    }
}

/// Configuration bytes of snapshot `s` for a reader: every byte the reader looks at carries `s`.
fn snapshot(reader: &str, s: u8) -> Vec<u8> {
    let mut c = zoo::config_space(reader);
    match reader {
        "9p" => {
            // the tag's length changes with the snapshot as well (2 + s of the 10 bytes)
            let len = std::cmp::min(2 + s as usize, c.len() - 2);
            c[0..2].copy_from_slice(&(len as u16).to_le_bytes());
            for b in c.iter_mut().skip(2) {
                *b = b'a' + s;
            }
        }
        _ => {
            for b in c.iter_mut() {
                *b = s;
            }
        }
    }
    c
}

fn use_driver<T: Transport + 'static>(reader: &str, t: T) -> Result<Vec<u8>, String> {
    let e = |e: virtio_drivers::Error| format!("{:?}", e);
    Ok(match reader {
        "blk" => VirtIOBlk::<LedgerHal, T>::new(t).map_err(e)?.capacity().to_le_bytes().to_vec(),
        "socket" => VirtIOSocket::<LedgerHal, T>::new(t).map_err(e)?.guest_cid().to_le_bytes().to_vec(),
        "console" => {
            let c = VirtIOConsole::<LedgerHal, T>::new(t).map_err(e)?;
            with_world(|w| w.dev(json!({"e":"CfgCall","reader":"console"})));
            let s = c.size().map_err(e)?.expect("SIZE negotiated");
            let mut v = s.columns.to_le_bytes().to_vec();
            v.extend(s.rows.to_le_bytes());
            v
        }
        "netraw" => VirtIONetRaw::<LedgerHal, T, 4>::new(t).map_err(e)?.mac_address().to_vec(),
        "9p" => {
            // the length is a field of its own: part 0 is the snapshot the length belongs to
            let d = VirtIO9p::<LedgerHal, T>::new(t).map_err(e)?;
            let tag = d.mount_tag();
            let mut v = vec![(tag.len() as u8).wrapping_sub(2)];
            v.extend(tag.bytes().map(|b| b.wrapping_sub(b'a')));
            v
        }
        _ => panic!("reader"),
    })
}

pub fn run(p: &CfgParams, sc: &str) -> (Vec<String>, Value) {
    reset_world();
    hooks::install(Box::new(|_| {}));
    let offered: u64 = (1 << 32) | 1; // VERSION_1 + (console) SIZE
    let state = Rc::new(RefCell::new((p.gen0, 1u8))); // (generation, snapshot id)
    let count = Rc::new(RefCell::new(0usize));
    let cfg0 = snapshot(&p.reader, 1);
    enum AnyT {
        Model(ModelTransport),
        Mmio(virtio_drivers::transport::mmio::MmioTransport<'static>),
    }
    let mut mmio_dev = None;
    let t = if p.transport == "mmio" {
        let dev = Rc::new(RefCell::new(crate::mmio::VirtioMmioDev::new(2, zoo::device_type(&p.reader) as u32, offered, zoo::num_queues(&p.reader), 32768, cfg0.clone())));
        dev.borrow_mut().config_gen = p.gen0;
        let size = 0x100 + cfg0.len();
        let base = crate::mmio::map(size, dev.clone(), "mmio", 0);
        mmio_dev = Some(dev);
        let hdr = std::ptr::NonNull::new(base as *mut virtio_drivers::transport::mmio::VirtIOHeader).unwrap();
        AnyT::Mmio(unsafe { virtio_drivers::transport::mmio::MmioTransport::new(hdr, size) }.expect("probe"))
    } else {
        let t = ModelTransport::new(zoo::device_type(&p.reader), offered, false, zoo::num_queues(&p.reader), 32768, cfg0);
        with_t(|t| t.config_gen = p.gen0);
        AnyT::Model(t)
    };
    {
        let (state, count, at, reader, mm) = (state.clone(), count.clone(), p.at.clone(), p.reader.clone(), mmio_dev.clone());
        let step = p.step;
        set_cfg_cb(Some(Box::new(move |_kind, _off| {
            let k = *count.borrow();
            *count.borrow_mut() += 1;
            if at.contains(&k) {
                let (g, s) = {
                    let mut st = state.borrow_mut();
                    st.0 = st.0.wrapping_add(step);
                    st.1 += 1;
                    *st
                };
                let bytes = snapshot(&reader, s);
                match &mm {
                    // the MMIO device model is mutably borrowed while it serves the access that
                    // triggered this callback; it applies the update itself from `pending`
                    Some(_) => crate::mmio::PENDING_CFG.with(|pc| *pc.borrow_mut() = Some((g, bytes))),
                    None => with_t(|t| {
                        t.config = bytes;
                        t.config_gen = g;
                    }),
                }
                with_world(|w| w.dev(json!({"e":"DevUpdate","gen":hex(g as u64),"snap":s})));
            }
        })));
    }
    with_world(|w| {
        w.trace.clear();
        w.dev(json!({"e":"CfgReset","sc":sc,"gen":hex(p.gen0 as u64),"snap":1}));
        if p.reader != "console" {
            w.dev(json!({"e":"CfgCall","reader":p.reader}));
        }
    });
    let reader = p.reader.clone();
    let r = catch_unwind(AssertUnwindSafe(move || match t {
        AnyT::Model(t) => use_driver(&reader, t),
        AnyT::Mmio(t) => use_driver(&reader, t),
    }));
    set_cfg_cb(None);
    let result = match r {
        Ok(Ok(bytes)) => {
            let parts: Vec<u32> = bytes.iter().map(|b| *b as u32).collect();
            with_world(|w| w.dev(json!({"e":"CfgRet","parts":parts})));
            "ok".to_string()
        }
        Ok(Err(e)) => {
            with_world(|w| w.dev(json!({"e":"CfgErr","err":e})));
            e
        }
        Err(pn) => {
            let m = crate::scen_vq::panic_msg(&pn);
            with_world(|w| w.dev(json!({"e":"Panic","msg":m})));
            "panic".into()
        }
    };
    hooks::uninstall();
    let lines = with_world(|w| {
        let l: Vec<String> = w
            .d_lines(&[])
            .into_iter()
            .filter(|l| {
                l.contains("\"e\":\"Cfg") || l.contains("\"e\":\"DevUpdate\"") || l.contains("\"e\":\"Panic\"")
                    || l.contains("\"op\":\"cfg_gen\"") || l.contains("\"op\":\"cfg_read\"")
            })
            .map(|l| {
                if l.contains("\"op\":\"cfg_gen\"") {
                    let mut v: Value = serde_json::from_str(&l).unwrap();
                    v["v"] = json!(hex(v["v"].as_u64().unwrap_or(0)));
                    v.to_string()
                } else {
                    l
                }
            })
            .collect();
        w.trace.clear();
        l
    });
    let n = lines.len();
    (lines, json!({"result": result, "events": n, "accesses": *count.borrow()}))
}

pub fn all_params(thorough: bool) -> Vec<CfgParams> {
    let mut v: Vec<CfgParams> = vec![];
    let horizon = if thorough { 16 } else { 10 };
    // generation sequences: counting up from 0, wrapping through 2^32, counting down, an 8-bit
    // counter restarting (255 -> 0 as seen in a 32-bit register: step 2^32-255)
    let gens: [(u32, u32); 5] = [(0, 1), (0xffff_ffff, 1), (0xffff_fffe, 1), (1, 0xffff_ffff), (255, 0xffff_ff01)];
    let mut k = 0usize;
    let mut push = |v: &mut Vec<CfgParams>, reader: &str, transport: &str, at: Vec<usize>| {
        let sel: Vec<(u32, u32)> = if thorough || at.len() <= 1 { gens.to_vec() } else { k += 1; vec![gens[0], gens[1 + k % 4]] };
        for (gen0, step) in sel {
            v.push(CfgParams { reader: reader.into(), transport: transport.into(), at: at.clone(), gen0, step });
        }
    };
    for reader in ["blk", "socket", "console", "netraw", "9p"] {
        for transport in ["model", "mmio"] {
            push(&mut v, reader, transport, vec![]);
            for a in 0..horizon {
                push(&mut v, reader, transport, vec![a]);
                for b in (a + 1)..horizon {
                    push(&mut v, reader, transport, vec![a, b]);
                    if thorough {
                        for c in (b + 1)..horizon {
                            push(&mut v, reader, transport, vec![a, b, c]);
                        }
                    }
                }
            }
        }
    }
    v
}
