//! The co-simulation world: trace buffers, the instrumented platform layer (`LedgerHal`), the
//! recorder of device-visible queue memory and the reference virtqueue device.
//!
//! Everything is thread-local and single-threaded per scenario: the event order is program order.

use serde_json::{Value, json};
use std::cell::RefCell;
use std::collections::BTreeMap;
use std::ptr::NonNull;
use virtio_drivers::{BufferDirection, Hal, PhysAddr};

pub fn hex(v: u64) -> String {
    format!("0x{:x}", v)
}

/// 64-bit (or narrower) value as little-endian 16-bit limbs, for TLA+ arithmetic (TLC ints are 32-bit).
pub fn limbs(v: u64, n: usize) -> Value {
    Value::Array((0..n).map(|i| json!((v >> (16 * i)) & 0xffff)).collect())
}

#[derive(Clone, Copy, PartialEq, Eq, Debug)]
pub enum Dir {
    ToDevice,
    FromDevice,
    Both,
}
impl Dir {
    pub fn name(self) -> &'static str {
        match self {
            Dir::ToDevice => "ToDevice",
            Dir::FromDevice => "FromDevice",
            Dir::Both => "Both",
        }
    }
}
impl From<BufferDirection> for Dir {
    fn from(d: BufferDirection) -> Self {
        match d {
            BufferDirection::DriverToDevice => Dir::ToDevice,
            BufferDirection::DeviceToDriver => Dir::FromDevice,
            BufferDirection::Both => Dir::Both,
        }
    }
}

pub struct DmaRegion {
    pub pa: u64,
    pub host: *mut u8,
    pub pages: usize,
    pub dir: Dir,
    pub ap: bool,
    pub seq: usize,
}

pub struct ShareRec {
    pub pa: u64,
    pub va: usize,
    pub len: usize,
    pub dir: Dir,
    pub ap: bool,
    pub bounce: Box<[u8]>,
}

#[derive(Clone, Debug)]
pub struct Elem {
    pub pa: u64,
    pub len: u32,
    pub w: bool,
}

#[derive(Clone, Debug)]
pub struct Chain {
    pub head: u16,
    pub elems: Vec<Elem>,
    pub ok: bool,
    pub why: &'static str,
}

#[derive(Clone, Copy, Debug, Default)]
pub struct QCfg {
    pub indirect: bool,
    pub event_idx: bool,
    pub ap: bool,
}

/// Recorder + reference device state for one virtqueue.
pub struct QueueRec {
    pub q: u16,
    pub n: usize,
    pub desc_pa: u64,
    pub avail_pa: u64,
    pub used_pa: u64,
    /// what the device last saw of the driver-written areas
    pub sh_desc: Vec<u8>,
    pub sh_avail: Vec<u8>,
    pub dev_next: u16,
    pub used_idx: u16,
    pub taken: Vec<Chain>,
    pub live: bool,
    pub init_links: usize,
    pub in_new: bool,
    pub stores_since_full_diff: usize,
    /// set when the device deliberately corrupted driver-owned areas (C07): the recorder then
    /// stops diffing whole areas, it only reads what the hook announces
    pub scribbled: bool,
    /// the available index was seen more than a ring ahead of the device (reported once)
    pub bad_avail: bool,
}

pub const PAGE: usize = 4096;

/// The misbehaving device of C07, layered over the reference device: it perturbs the two funnels
/// every personality uses (`chain_write`, `dev_complete`).
pub struct AdvState {
    pub rng: rand::rngs::SmallRng,
    /// probability that a completion is perturbed
    pub p: f64,
    /// overwrite driver-owned areas (descriptor table, available ring): 0 never, 1 dry run (same
    /// random draws, no write - the reference run of the differential check), 2 for real
    pub scribble: u8,
    pub counts: BTreeMap<&'static str, usize>,
    /// completions the device still performs faithfully before it starts to misbehave (so that
    /// drivers get past construction / set-up and are attacked in their deeper states as well)
    pub warmup: u32,
}

thread_local! {
    /// the platform maps buffers in place (share returns an address of the caller's own memory,
    /// as an identity-mapped kernel would) instead of bouncing them - for the next worlds
    pub static INPLACE_MODE: std::cell::Cell<bool> = const { std::cell::Cell::new(false) };
}
thread_local! {
    /// (seed, p, scribble) for the next worlds created on this thread
    pub static ADV_MODE: std::cell::Cell<Option<(u64, f64, u8)>> = const { std::cell::Cell::new(None) };
}
thread_local! {
    pub static ADV_DLINES: RefCell<Vec<String>> = const { RefCell::new(Vec::new()) };
}
pub fn adv_active() -> bool {
    ADV_MODE.with(|a| a.get().is_some())
}

pub struct World {
    /// all events in program order: (stream, queue index, json line); stream 0 = queue-level,
    /// 1 = driver/transport/platform-level
    pub trace: Vec<(u8, u16, String)>,
    pub dma: BTreeMap<u64, DmaRegion>,
    pub shares: BTreeMap<u64, ShareRec>,
    pub next_dma_pa: u64,
    pub next_share_pa: u64,
    pub dma_calls: usize,
    pub fail_dma_at: Option<usize>,
    pub queues: BTreeMap<u16, QueueRec>,
    /// queue whose add/pop is in progress (Hal events are attributed to it)
    pub cur_q: Option<u16>,
    /// the scenario logs Call/Ret of queue operations itself (direct queue scenarios)
    pub external_calls: bool,
    /// bufs (va,len) of the add/pop call in progress, to tell tables from caller buffers
    pub cur_bufs: Vec<(usize, usize)>,
    /// output buffers of the pop in progress (driver-owned queues)
    pub cur_outs: Vec<(usize, usize)>,
    pub cur_tok: u16,
    pub bad: usize,
    pub dma_leaked_host: Vec<(*mut u8, usize)>,
    pub mmio_map: Vec<(u64, usize, usize)>, // (pa, size, window id) for mmio_phys_to_virt
    /// queue-level events are not recorded (quiescent-to-quiescent fast-forward)
    pub muted: bool,
    pub adv: Option<AdvState>,
    /// buffers are shared in place (no bounce copy): the device's writes are visible to the driver
    /// at once, and the driver's later writes to the device
    pub inplace: bool,
}

impl World {
    pub fn new() -> Self {
        World {
            trace: Vec::new(),
            dma: BTreeMap::new(),
            shares: BTreeMap::new(),
            next_dma_pa: 0x0000_0012_3450_0000,
            next_share_pa: 0x0000_7a00_0000_1000,
            dma_calls: 0,
            fail_dma_at: None,
            queues: BTreeMap::new(),
            cur_q: None,
            external_calls: false,
            cur_bufs: Vec::new(),
            cur_outs: Vec::new(),
            cur_tok: 0,
            bad: 0,
            dma_leaked_host: Vec::new(),
            mmio_map: Vec::new(),
            muted: false,
            inplace: INPLACE_MODE.with(|m| m.get()),
            adv: ADV_MODE.with(|a| a.get()).map(|(seed, p, scribble)| AdvState {
                rng: <rand::rngs::SmallRng as rand::SeedableRng>::seed_from_u64(seed),
                p,
                scribble,
                counts: BTreeMap::new(),
                // a third of the worlds misbehave from the first completion on
                warmup: if seed % 3 == 0 || p == 0.0 { 0 } else { [4, 12, 30, 80][(seed as usize / 3) % 4] },
            }),
        }
    }

    pub fn qev(&mut self, q: u16, v: Value) {
        self.drain_frees();
        if self.muted {
            // inside an unlogged (skipped) segment only anomalies are kept
            let e = v["e"].as_str().unwrap_or("");
            if !matches!(e, "DevBadAddress" | "DevBadAvail" | "UnhookedStore" | "Panic" | "Stuck") {
                return;
            }
        }
        self.trace.push((0, q, v.to_string()));
    }
    /// queue-level events of one queue, in order
    pub fn q_lines(&self, q: u16) -> Vec<String> {
        self.trace.iter().filter(|(k, qq, _)| *k == 0 && *qq == q).map(|(_, _, l)| l.clone()).collect()
    }
    /// driver-level events plus the queue-level events whose name is in `also`
    pub fn d_lines(&self, also: &[&str]) -> Vec<String> {
        if adv_active() {
            // the adversarial family (C07) looks at the unfiltered driver-level stream
            let all: Vec<String> = self.trace.iter().filter(|(k, _, _)| *k == 1).map(|(_, _, l)| l.clone()).collect();
            ADV_DLINES.with(|d| *d.borrow_mut() = all);
        }
        self.trace
            .iter()
            .filter(|(k, _, l)| *k == 1 || also.iter().any(|n| l.contains(&format!("\"e\":\"{}\"", n))))
            .map(|(k, q, l)| if *k == 0 { format!("{{\"q\":{},{}", q, &l[1..]) } else { l.clone() })
            .collect()
    }
    /// register-level events (stream 2)
    pub fn reg(&mut self, v: Value) {
        self.trace.push((2, 0xffff, v.to_string()));
    }
    /// register-level events plus the named driver-level markers
    pub fn m_lines(&self, also: &[&str]) -> Vec<String> {
        self.trace
            .iter()
            .filter(|(k, _, l)| *k == 2 || (*k == 1 && also.iter().any(|n| l.contains(&format!("\"e\":\"{}\"", n)))))
            .map(|(_, _, l)| l.clone())
            .collect()
    }
    /// heap frees of memory still shared with the device, noticed by the allocator interposer
    pub fn drain_frees(&mut self) {
        for (q, pa) in crate::alloc::take_freed() {
            self.trace.push((1, 0xffff, json!({"e":"FreeShared","q":q,"pa":hex(pa)}).to_string()));
        }
    }
    pub fn dev(&mut self, v: Value) {
        self.drain_frees();
        self.trace.push((1, 0xffff, v.to_string()));
    }

    /// Device-side address translation: the only way the reference device reaches memory.
    pub fn translate(&self, pa: u64, len: usize, write: bool) -> Option<*mut u8> {
        if len == 0 {
            return None;
        }
        let end = pa.checked_add(len as u64)?;
        if let Some((_, s)) = self.shares.range(..=pa).next_back() {
            if end <= s.pa + s.len as u64 {
                let ok = match s.dir {
                    Dir::ToDevice => !write,
                    Dir::FromDevice => write,
                    Dir::Both => true,
                };
                if ok {
                    let base = if s.bounce.is_empty() { s.va as *mut u8 } else { s.bounce.as_ptr() as *mut u8 };
                    return Some(unsafe { base.add((pa - s.pa) as usize) });
                }
                return None;
            }
        }
        if let Some((_, r)) = self.dma.range(..=pa).next_back() {
            if end <= r.pa + (r.pages * PAGE) as u64 {
                let ok = match r.dir {
                    Dir::ToDevice => !write,
                    Dir::FromDevice => true, // the device may read back what it wrote
                    Dir::Both => true,
                };
                if ok {
                    return Some(unsafe { r.host.add((pa - r.pa) as usize) });
                }
            }
        }
        None
    }

    pub fn dev_read(&mut self, q: u16, pa: u64, len: usize) -> Option<Vec<u8>> {
        // after the device scribbled over driver-owned areas it keeps acting on what the driver
        // wrote (the recorder's copy), so that the run stays comparable with the unscribbled one
        if let Some(r) = self.queues.get(&q) {
            if r.scribbled {
                let end = pa + len as u64;
                if pa >= r.desc_pa && end <= r.desc_pa + 16 * r.n as u64 {
                    let o = (pa - r.desc_pa) as usize;
                    return Some(r.sh_desc[o..o + len].to_vec());
                }
                if pa >= r.avail_pa && end <= r.avail_pa + 6 + 2 * r.n as u64 {
                    let o = (pa - r.avail_pa) as usize;
                    return Some(r.sh_avail[o..o + len].to_vec());
                }
            }
        }
        self.mem_read(q, pa, len)
    }
    pub fn mem_read(&mut self, q: u16, pa: u64, len: usize) -> Option<Vec<u8>> {
        match self.translate(pa, len, false) {
            Some(p) => {
                let mut v = vec![0u8; len];
                unsafe { std::ptr::copy_nonoverlapping(p, v.as_mut_ptr(), len) };
                Some(v)
            }
            None => {
                self.bad += 1;
                self.qev(q, json!({"e":"DevBadAddress","pa":hex(pa),"len":len,"w":false}));
                None
            }
        }
    }
    pub fn dev_write(&mut self, q: u16, pa: u64, data: &[u8]) -> bool {
        match self.translate(pa, data.len(), true) {
            Some(p) => {
                unsafe { std::ptr::copy_nonoverlapping(data.as_ptr(), p, data.len()) };
                true
            }
            None => {
                self.bad += 1;
                self.qev(q, json!({"e":"DevBadAddress","pa":hex(pa),"len":data.len(),"w":true}));
                false
            }
        }
    }
    fn rd16(&mut self, q: u16, pa: u64) -> u16 {
        self.dev_read(q, pa, 2).map(|b| u16::from_le_bytes([b[0], b[1]])).unwrap_or(0)
    }

    // ---------------------------------------------------------------- queue registration
    pub fn queue_register(&mut self, q: u16, n: usize, desc_pa: u64, avail_pa: u64, used_pa: u64) {
        let rec = QueueRec {
            q,
            n,
            desc_pa,
            avail_pa,
            used_pa,
            sh_desc: vec![0; 16 * n],
            sh_avail: vec![0; 6 + 2 * n],
            dev_next: 0,
            used_idx: 0,
            taken: Vec::new(),
            live: true,
            init_links: 0,
            in_new: true,
            stores_since_full_diff: 0,
            scribbled: false,
            bad_avail: false,
        };
        self.queues.insert(q, rec);
        // which DMA regions hold this queue's rings (for the teardown-order guard of C09)
        let mut seqs: Vec<usize> = vec![];
        for pa in [desc_pa, avail_pa, used_pa] {
            if let Some((_, r)) = self.dma.range(..=pa).next_back() {
                if pa < r.pa + (r.pages * PAGE) as u64 && !seqs.contains(&r.seq) {
                    seqs.push(r.seq);
                }
            }
        }
        self.dev(json!({"e":"RegionHolds","q":q,"seqs":seqs}));
    }

    // ---------------------------------------------------------------- recorder
    /// Called from the store hook: read what the device would now see at the announced location.
    pub fn on_store(&mut self, q: u16, area: &str, index: u16) {
        let Some(mut rec) = self.queues.remove(&q) else {
            self.qev(q, json!({"e":"UnhookedStore","why":"store to unregistered queue","area":area,"i":index}));
            return;
        };
        let n = rec.n;
        match area {
            "desc" => {
                let i = index as usize;
                if i >= n {
                    self.qev(q, json!({"e":"UnhookedStore","why":"desc index out of range","i":index}));
                } else if let Some(b) = self.mem_read(q, rec.desc_pa + 16 * i as u64, 16) {
                    rec.sh_desc[16 * i..16 * i + 16].copy_from_slice(&b);
                    if rec.in_new {
                        // link stores of VirtQueue::new happen before the queue is handed to anybody;
                        // they are summarised as one InitLinks event
                        rec.init_links += 1;
                    } else {
                        self.qev(q, json!({"e":"Store","area":"desc","i":i,"d":desc_json(&b)}));
                    }
                }
            }
            "ring" => {
                let i = index as usize;
                if i >= n {
                    self.qev(q, json!({"e":"UnhookedStore","why":"ring slot out of range","i":index}));
                } else if let Some(b) = self.mem_read(q, rec.avail_pa + 4 + 2 * i as u64, 2) {
                    rec.sh_avail[4 + 2 * i..6 + 2 * i].copy_from_slice(&b);
                    self.qev(q, json!({"e":"Store","area":"ring","i":i,"v":u16::from_le_bytes([b[0],b[1]])}));
                }
            }
            "idx" | "flags" | "used_event" => {
                let off = match area {
                    "flags" => 0,
                    "idx" => 2,
                    _ => 4 + 2 * n,
                };
                if let Some(b) = self.mem_read(q, rec.avail_pa + off as u64, 2) {
                    rec.sh_avail[off..off + 2].copy_from_slice(&b);
                    self.qev(q, json!({"e":"Store","area":area,"v":u16::from_le_bytes([b[0],b[1]])}));
                }
            }
            _ => {}
        }
        rec.stores_since_full_diff += 1;
        // anything else that changed without being announced?
        if !rec.in_new && (n <= 64 || rec.stores_since_full_diff >= 256) {
            self.full_diff(&mut rec);
        }
        self.queues.insert(q, rec);
    }

    /// Compare all driver-written areas with what the hooks announced so far.
    pub fn full_diff(&mut self, rec: &mut QueueRec) {
        rec.stores_since_full_diff = 0;
        if rec.scribbled {
            return;
        }
        let q = rec.q;
        if let Some(p) = self.translate(rec.desc_pa, 16 * rec.n, false) {
            let cur = unsafe { std::slice::from_raw_parts(p, 16 * rec.n) };
            if cur != &rec.sh_desc[..] {
                for i in 0..rec.n {
                    if cur[16 * i..16 * i + 16] != rec.sh_desc[16 * i..16 * i + 16] {
                        self.qev(q, json!({"e":"UnhookedStore","area":"desc","i":i,"d":desc_json(&cur[16*i..16*i+16])}));
                        rec.sh_desc[16 * i..16 * i + 16].copy_from_slice(&cur[16 * i..16 * i + 16]);
                    }
                }
            }
        }
        let alen = 6 + 2 * rec.n;
        if let Some(p) = self.translate(rec.avail_pa, alen, false) {
            let cur = unsafe { std::slice::from_raw_parts(p, alen) };
            if cur != &rec.sh_avail[..] {
                for i in 0..alen / 2 {
                    if cur[2 * i..2 * i + 2] != rec.sh_avail[2 * i..2 * i + 2] {
                        self.qev(q, json!({"e":"UnhookedStore","area":"avail","off":2*i,
                            "v":u16::from_le_bytes([cur[2*i],cur[2*i+1]])}));
                        rec.sh_avail[2 * i..2 * i + 2].copy_from_slice(&cur[2 * i..2 * i + 2]);
                    }
                }
            }
        }
    }

    /// The queue constructor returned: summarise the link stores.
    pub fn end_new(&mut self, q: u16) {
        let Some(mut rec) = self.queues.remove(&q) else { return };
        rec.in_new = false;
        // verify the whole initial image: zero except next = i+1 links
        let mut ok = true;
        if let Some(p) = self.translate(rec.desc_pa, 16 * rec.n, false) {
            let cur = unsafe { std::slice::from_raw_parts(p, 16 * rec.n) }.to_vec();
            for i in 0..rec.n {
                let d = &cur[16 * i..16 * i + 16];
                let next = u16::from_le_bytes([d[14], d[15]]) as usize;
                let want = if i + 1 < rec.n { i + 1 } else { 0 };
                if d[..14].iter().any(|b| *b != 0) || next != want {
                    ok = false;
                }
            }
            rec.sh_desc.copy_from_slice(&cur);
        } else {
            ok = false;
        }
        let alen = 6 + 2 * rec.n;
        let mut zero = true;
        if let Some(p) = self.translate(rec.avail_pa, alen, false) {
            let cur = unsafe { std::slice::from_raw_parts(p, alen) };
            zero &= cur.iter().all(|b| *b == 0);
        } else {
            zero = false;
        }
        let ulen = 6 + 8 * rec.n;
        if let Some(p) = self.translate(rec.used_pa, ulen, false) {
            let cur = unsafe { std::slice::from_raw_parts(p, ulen) };
            zero &= cur.iter().all(|b| *b == 0);
        } else {
            zero = false;
        }
        self.qev(q, json!({"e":"InitLinks","n":rec.n,"stores":rec.init_links,"links_ok":ok,"rings_zero":zero}));
        self.queues.insert(q, rec);
    }

    // ---------------------------------------------------------------- reference device
    /// What the device reads as avail.idx right now.
    pub fn dev_avail_idx(&mut self, q: u16) -> u16 {
        let Some(rec) = self.queues.get(&q) else { return 0 };
        let pa = rec.avail_pa + 2;
        self.rd16(q, pa)
    }
    pub fn dev_avail_flags(&mut self, q: u16) -> u16 {
        let Some(rec) = self.queues.get(&q) else { return 0 };
        let pa = rec.avail_pa;
        self.rd16(q, pa)
    }
    pub fn dev_used_event(&mut self, q: u16) -> u16 {
        let Some(rec) = self.queues.get(&q) else { return 0 };
        let pa = rec.avail_pa + 4 + 2 * rec.n as u64;
        self.rd16(q, pa)
    }
    /// (used.flags, avail_event) as currently in memory
    pub fn dev_used_fields(&mut self, q: u16) -> (u16, u16) {
        let Some(rec) = self.queues.get(&q) else { return (0, 0) };
        let (a, b) = (rec.used_pa, rec.used_pa + 4 + 8 * rec.n as u64);
        (self.rd16(q, a), self.rd16(q, b))
    }
    pub fn dev_pending(&mut self, q: u16) -> u16 {
        let idx = self.dev_avail_idx(q);
        let Some(rec) = self.queues.get(&q) else { return 0 };
        idx.wrapping_sub(rec.dev_next)
    }

    fn read_desc(&mut self, q: u16, pa: u64) -> Option<(u64, u32, u16, u16)> {
        let b = self.dev_read(q, pa, 16)?;
        Some((
            u64::from_le_bytes(b[0..8].try_into().unwrap()),
            u32::from_le_bytes(b[8..12].try_into().unwrap()),
            u16::from_le_bytes(b[12..14].try_into().unwrap()),
            u16::from_le_bytes(b[14..16].try_into().unwrap()),
        ))
    }

    /// Walk a chain exactly as Virtio 1.2 2.7.5 / 2.7.5.3 prescribe, with full validation.
    pub fn parse_chain(&mut self, q: u16, head: u16, indirect_ok: bool) -> Chain {
        let (n, desc_pa) = match self.queues.get(&q) {
            Some(r) => (r.n, r.desc_pa),
            None => return Chain { head, elems: vec![], ok: false, why: "no queue" },
        };
        let bad = |why| Chain { head, elems: vec![], ok: false, why };
        if head as usize >= n {
            return bad("head out of range");
        }
        let Some((addr, len, flags, _next)) = self.read_desc(q, desc_pa + 16 * head as u64) else {
            return bad("descriptor table unreadable");
        };
        let mut elems = Vec::new();
        if flags & 4 != 0 {
            if !indirect_ok {
                return bad("indirect descriptor although not negotiated");
            }
            if flags != 4 {
                return bad("indirect descriptor with other flags");
            }
            if len == 0 || len % 16 != 0 {
                return bad("indirect table length not a multiple of 16");
            }
            let cnt = (len / 16) as usize;
            if cnt > n {
                return bad("indirect table longer than queue size");
            }
            for i in 0..cnt {
                let Some((a, l, f, nx)) = self.read_desc(q, addr + 16 * i as u64) else {
                    return bad("indirect table unreadable");
                };
                if f & !3 != 0 {
                    return bad("bad flags in indirect table");
                }
                if l == 0 {
                    return bad("zero-length element");
                }
                let last = i + 1 == cnt;
                if last != (f & 1 == 0) {
                    return bad("NEXT flag wrong in indirect table");
                }
                if !last && nx as usize != i + 1 {
                    return bad("next index wrong in indirect table");
                }
                elems.push(Elem { pa: a, len: l, w: f & 2 != 0 });
            }
        } else {
            let mut seen = vec![false; n];
            let mut i = head as usize;
            loop {
                if i >= n {
                    return bad("next out of range");
                }
                if seen[i] {
                    return bad("descriptor loop");
                }
                seen[i] = true;
                let Some((a, l, f, nx)) = self.read_desc(q, desc_pa + 16 * i as u64) else {
                    return bad("descriptor table unreadable");
                };
                if f & !3 != 0 {
                    return bad("indirect or reserved flag inside a chain");
                }
                if l == 0 {
                    return bad("zero-length element");
                }
                elems.push(Elem { pa: a, len: l, w: f & 2 != 0 });
                if f & 1 == 0 {
                    break;
                }
                i = nx as usize;
            }
        }
        // readable before writable
        let mut seen_w = false;
        for e in &elems {
            if e.w {
                seen_w = true;
            } else if seen_w {
                return Chain { head, elems, ok: false, why: "readable element after writable" };
            }
        }
        Chain { head, elems, ok: true, why: "" }
    }

    /// Take the next available entry, if the device can see one.
    pub fn dev_take(&mut self, q: u16, indirect_ok: bool) -> Option<Chain> {
        let idx = self.dev_avail_idx(q);
        let (n, avail_pa, dev_next) = {
            let r = self.queues.get(&q)?;
            (r.n, r.avail_pa, r.dev_next)
        };
        if idx == dev_next {
            return None;
        }
        // (a device that reports completions it never took lets the driver run ahead of it: under
        // the adversary of C07 this is expected, the device just keeps taking in ring order)
        if idx.wrapping_sub(dev_next) as usize > n && self.adv.is_none() {
            // more entries than the ring has: the index moved backwards or ran ahead - nothing a
            // device could sensibly take (no action in any specification: the trace ends here)
            let already = self.queues.get(&q).map(|r| r.bad_avail).unwrap_or(true);
            if !already {
                self.qev(q, json!({"e":"DevBadAvail","idx":idx,"next":dev_next,"n":n}));
                if let Some(r) = self.queues.get_mut(&q) {
                    r.bad_avail = true;
                }
            }
            return None;
        }
        let slot = dev_next as usize & (n - 1);
        let head = self.rd16(q, avail_pa + 4 + 2 * slot as u64);
        let chain = self.parse_chain(q, head, indirect_ok);
        let elems: Vec<Value> = chain
            .elems
            .iter()
            .map(|e| json!({"pa":hex(e.pa),"len":e.len,"w":e.w}))
            .collect();
        self.qev(q, json!({"e":"DevTake","h":head,"ok":chain.ok,"why":chain.why,"elems":elems}));
        let r = self.queues.get_mut(&q)?;
        r.dev_next = r.dev_next.wrapping_add(1);
        r.taken.push(chain.clone());
        Some(chain)
    }

    /// Concatenation of the device-readable part of a chain.
    pub fn chain_read(&mut self, q: u16, c: &Chain) -> Vec<u8> {
        let mut v = Vec::new();
        for e in c.elems.iter().filter(|e| !e.w) {
            if let Some(b) = self.dev_read(q, e.pa, e.len as usize) {
                v.extend_from_slice(&b);
            }
        }
        v
    }
    pub fn chain_readable_len(c: &Chain) -> usize {
        c.elems.iter().filter(|e| !e.w).map(|e| e.len as usize).sum()
    }
    pub fn chain_writable_len(c: &Chain) -> usize {
        c.elems.iter().filter(|e| e.w).map(|e| e.len as usize).sum()
    }
    /// Scatter `data` over the device-writable part; returns bytes written.
    pub fn chain_write(&mut self, q: u16, c: &Chain, data: &[u8]) -> usize {
        // C07: arbitrary response bytes
        let hit = self.adv.as_mut().map(|a| a.warmup == 0 && rand::Rng::gen_bool(&mut a.rng, a.p)).unwrap_or(false);
        let garbled: Option<Vec<u8>> = match self.adv.as_mut() {
            Some(a) if hit => {
                use rand::Rng;
                let wl = Self::chain_writable_len(c);
                let n = match a.rng.gen_range(0..4) {
                    0 => data.len(),
                    1 => wl,
                    2 => a.rng.gen_range(0..=wl),
                    _ => data.len().saturating_sub(a.rng.gen_range(0..=8usize)),
                };
                let mut v = data.to_vec();
                v.resize(n, 0);
                match a.rng.gen_range(0..3) {
                    0 => a.rng.fill(&mut v[..]),
                    1 => {
                        // flip a few bytes only (near-valid responses reach deeper)
                        for _ in 0..3 {
                            if !v.is_empty() {
                                let k = a.rng.gen_range(0..v.len());
                                v[k] = [0u8, 1, 0x7f, 0x80, 0xff][a.rng.gen_range(0..5)];
                            }
                        }
                    }
                    _ => v.iter_mut().for_each(|b| *b = 0xff),
                }
                *a.counts.entry("garbled_response").or_default() += 1;
                Some(v)
            }
            _ => None,
        };
        let data: &[u8] = garbled.as_deref().unwrap_or(data);
        let mut off = 0;
        for e in c.elems.iter().filter(|e| e.w) {
            if off >= data.len() {
                break;
            }
            let k = std::cmp::min(e.len as usize, data.len() - off);
            if self.dev_write(q, e.pa, &data[off..off + k]) {
                off += k;
            } else {
                break;
            }
        }
        off
    }

    /// Complete a taken chain: used element first, then the used index.
    /// Digest of what the device-writable part of a chain currently holds (the device's view).
    pub fn chain_writable_digest(&mut self, c: &Chain) -> String {
        let mut all = Vec::new();
        for e in c.elems.iter().filter(|e| e.w) {
            if let Some(p) = self.translate(e.pa, e.len as usize, true) {
                all.extend_from_slice(unsafe { std::slice::from_raw_parts(p, e.len as usize) });
            }
        }
        crate::out::fnv64(&all)
    }

    pub fn dev_complete(&mut self, q: u16, head: u16, len: u32, wd: Option<String>) {
        use rand::Rng;
        let roll = self.adv.as_mut().and_then(|a| {
            if a.warmup > 0 {
                a.warmup -= 1;
                None
            } else if a.rng.gen_bool(a.p) {
                Some(a.rng.gen_range(0..100u32))
            } else {
                None
            }
        });
        let Some(roll) = roll else { return self.dev_complete_legit(q, head, len, wd) };
        let (n, used_idx, scribble_ok) = match self.queues.get(&q) {
            Some(r) => (r.n, r.used_idx, self.adv.as_ref().unwrap().scribble > 0),
            None => return,
        };
        // whatever happens, the device is done with this chain
        if let Some(r) = self.queues.get_mut(&q) {
            if let Some(p) = r.taken.iter().position(|c| c.head == head) {
                r.taken.remove(p);
            }
        }
        let a = self.adv.as_mut().unwrap();
        let count = |a: &mut AdvState, k: &'static str| *a.counts.entry(k).or_default() += 1;
        match roll {
            0..=24 => {
                // arbitrary used length
                let l = match a.rng.gen_range(0..6) {
                    0 => 0,
                    1 => 1,
                    2 => len.wrapping_add(1),
                    3 => u32::MAX,
                    4 => 0x8000_0000,
                    _ => a.rng.r#gen(),
                };
                count(a, "bogus_len");
                self.dev_complete_legit(q, head, l, wd);
            }
            25..=44 => {
                // an identifier the driver did not expect here: another chain, a never-issued
                // descriptor, out of range, garbage in the upper half
                let id: u32 = match a.rng.gen_range(0..5) {
                    0 => (head as u32 + 1) % n as u32,
                    1 => a.rng.gen_range(0..n as u32),
                    2 => n as u32 + a.rng.gen_range(0..4),
                    3 => head as u32 | 0x1_0000 << a.rng.gen_range(0..15),
                    _ => a.rng.r#gen(),
                };
                let l = if a.rng.gen_bool(0.5) { len } else { a.rng.r#gen() };
                count(a, "bogus_id");
                self.dev_raw_used_elem(q, used_idx as usize & (n - 1), id, l);
                self.dev_raw_used_idx(q, used_idx.wrapping_add(1));
            }
            45..=56 => {
                // the same chain reported twice
                count(a, "duplicate");
                self.dev_complete_legit(q, head, len, wd);
                self.dev_raw_used_elem(q, used_idx.wrapping_add(1) as usize & (n - 1), head as u32, len);
                self.dev_raw_used_idx(q, used_idx.wrapping_add(2));
            }
            57..=68 => {
                // index jump (forwards by more than one, or backwards)
                let k: u16 = match a.rng.gen_range(0..4) {
                    0 => 2,
                    1 => n as u16 + 1,
                    2 => 0xffff,
                    _ => a.rng.r#gen(),
                };
                count(a, "index_jump");
                self.dev_complete_legit(q, head, len, wd);
                self.dev_raw_used_idx(q, used_idx.wrapping_add(1).wrapping_add(k));
            }
            69..=78 => {
                // never completed
                count(a, "dropped");
            }
            _ => {
                if scribble_ok {
                    count(a, "scribble");
                    self.dev_scribble(q);
                }
                self.dev_complete_legit(q, head, len, wd);
            }
        }
    }

    /// Pointer to queue memory regardless of its DMA direction (a misbehaving device can write
    /// where it must not).
    fn any_ptr(&self, pa: u64, len: usize) -> Option<*mut u8> {
        let (_, r) = self.dma.range(..=pa).next_back()?;
        if pa + len as u64 <= r.pa + (r.pages * PAGE) as u64 {
            Some(unsafe { r.host.add((pa - r.pa) as usize) })
        } else {
            None
        }
    }

    /// C07: the device overwrites parts of the descriptor table and the available ring.
    pub fn dev_scribble(&mut self, q: u16) {
        use rand::Rng;
        let Some(mut rec) = self.queues.remove(&q) else { return };
        let dry = self.adv.as_ref().map(|a| a.scribble < 2).unwrap_or(true);
        if !rec.scribbled && !dry {
            // everything the driver wrote so far is in the recorder's copy
            self.full_diff(&mut rec);
            rec.scribbled = true;
        }
        let mut adv = self.adv.take().expect("adversary");
        let a = &mut adv;
        let n = rec.n;
        let mut what = vec![];
        for _ in 0..a.rng.gen_range(1..=4) {
            let (pa, bytes): (u64, Vec<u8>) = match a.rng.gen_range(0..5) {
                0 | 1 => {
                    let i = a.rng.gen_range(0..n);
                    let mut b = vec![0u8; 16];
                    match a.rng.gen_range(0..3) {
                        0 => a.rng.fill(&mut b[..]),
                        1 => {
                            // plausible descriptor: valid-looking flags and next
                            b[8..12].copy_from_slice(&a.rng.gen_range(0..64u32).to_le_bytes());
                            b[12..14].copy_from_slice(&(a.rng.gen_range(0..8u16)).to_le_bytes());
                            b[14..16].copy_from_slice(&(a.rng.gen_range(0..n as u16 + 2)).to_le_bytes());
                        }
                        _ => b.iter_mut().for_each(|x| *x = 0xff),
                    }
                    what.push(format!("desc{i}"));
                    (rec.desc_pa + 16 * i as u64, b)
                }
                2 => {
                    let i = a.rng.gen_range(0..n);
                    what.push(format!("ring{i}"));
                    (rec.avail_pa + 4 + 2 * i as u64, a.rng.r#gen::<u16>().to_le_bytes().to_vec())
                }
                3 => {
                    what.push("idx".into());
                    (rec.avail_pa + 2, a.rng.r#gen::<u16>().to_le_bytes().to_vec())
                }
                _ => {
                    what.push("flags/used_event".into());
                    let off = if a.rng.gen_bool(0.5) { 0 } else { 4 + 2 * n as u64 };
                    (rec.avail_pa + off, a.rng.r#gen::<u16>().to_le_bytes().to_vec())
                }
            };
            if !dry {
                if let Some(p) = self.any_ptr(pa, bytes.len()) {
                    unsafe { std::ptr::copy_nonoverlapping(bytes.as_ptr(), p, bytes.len()) };
                }
            }
        }
        self.adv = Some(adv);
        self.queues.insert(q, rec);
        if !dry {
            self.qev(q, json!({"e":"DevScribble","what":what}));
        }
    }

    pub fn dev_complete_legit(&mut self, q: u16, head: u16, len: u32, wd: Option<String>) {
        let (n, used_pa, used_idx) = match self.queues.get(&q) {
            Some(r) => (r.n, r.used_pa, r.used_idx),
            None => return,
        };
        let slot = used_idx as usize & (n - 1);
        let mut e = [0u8; 8];
        e[0..4].copy_from_slice(&(head as u32).to_le_bytes());
        e[4..8].copy_from_slice(&len.to_le_bytes());
        self.dev_write(q, used_pa + 4 + 8 * slot as u64, &e);
        self.qev(q, json!({"e":"DevElem","s":slot,"id":head,"len":hex(len as u64)}));
        let v = used_idx.wrapping_add(1);
        self.dev_write(q, used_pa + 2, &v.to_le_bytes());
        self.qev(q, json!({"e":"DevIdx","v":v,"id":head,"wd":wd.unwrap_or_default()}));
        if let Some(r) = self.queues.get_mut(&q) {
            r.used_idx = v;
            if let Some(p) = r.taken.iter().position(|c| c.head == head) {
                r.taken.remove(p);
            }
        }
    }

    /// Raw used-ring writes for the adversarial personality.
    pub fn dev_raw_used_elem(&mut self, q: u16, slot: usize, id: u32, len: u32) {
        let Some(r) = self.queues.get(&q) else { return };
        let used_pa = r.used_pa;
        let mut e = [0u8; 8];
        e[0..4].copy_from_slice(&id.to_le_bytes());
        e[4..8].copy_from_slice(&len.to_le_bytes());
        self.dev_write(q, used_pa + 4 + 8 * slot as u64, &e);
        self.qev(q, json!({"e":"DevElem","s":slot,"id":hex(id as u64),"idn":(id & 0xffff),"len":hex(len as u64),"raw":true}));
    }
    pub fn dev_raw_used_idx(&mut self, q: u16, v: u16) {
        let Some(r) = self.queues.get_mut(&q) else { return };
        r.used_idx = v;
        let used_pa = r.used_pa;
        self.dev_write(q, used_pa + 2, &v.to_le_bytes());
        self.qev(q, json!({"e":"DevIdx","v":v,"raw":true}));
    }

    pub fn dev_set_avail_event(&mut self, q: u16, v: u16) {
        let Some(r) = self.queues.get(&q) else { return };
        let pa = r.used_pa + 4 + 8 * r.n as u64;
        self.dev_write(q, pa, &v.to_le_bytes());
        self.qev(q, json!({"e":"DevAvailEvent","v":v}));
    }
    pub fn dev_set_used_flags(&mut self, q: u16, v: u16) {
        let Some(r) = self.queues.get(&q) else { return };
        let pa = r.used_pa;
        self.dev_write(q, pa, &v.to_le_bytes());
        self.qev(q, json!({"e":"DevFlags","v":v}));
    }
}

pub fn desc_json(b: &[u8]) -> Value {
    json!({
        "addr": hex(u64::from_le_bytes(b[0..8].try_into().unwrap())),
        "len": u32::from_le_bytes(b[8..12].try_into().unwrap()),
        "flags": u16::from_le_bytes(b[12..14].try_into().unwrap()),
        "next": u16::from_le_bytes(b[14..16].try_into().unwrap()),
    })
}

thread_local! {
    pub static WORLD: RefCell<World> = RefCell::new(World::new());
}

pub fn with_world<R>(f: impl FnOnce(&mut World) -> R) -> R {
    WORLD.with(|w| f(&mut w.borrow_mut()))
}

pub fn reset_world() {
    with_world(|w| {
        // free host memory of the previous scenario
        for (_, r) in std::mem::take(&mut w.dma) {
            unsafe { std::alloc::dealloc(r.host, std::alloc::Layout::from_size_align(r.pages * PAGE, PAGE).unwrap()) };
        }
        *w = World::new();
    });
    crate::alloc::reset();
    crate::mmio::unmap_all();
    crate::pci::reset_bus();
    crate::transport::set_negotiated(0);
}

// -------------------------------------------------------------------------------- LedgerHal
pub struct LedgerHal;

unsafe impl Hal for LedgerHal {
    fn dma_alloc(pages: usize, direction: BufferDirection, access_platform: bool) -> (PhysAddr, NonNull<u8>) {
        with_world(|w| {
            w.dma_calls += 1;
            let seq = w.dma_calls;
            // (a platform refuses absurd requests: more than 64 MiB is "out of memory" here)
            if w.fail_dma_at == Some(seq) || pages == 0 || pages > 16384 {
                w.dev(json!({"e":"DmaAlloc","seq":seq,"pages":pages,"dir":Dir::from(direction).name(),
                             "ap":access_platform,"failed":true}));
                return (0, NonNull::dangling());
            }
            let layout = std::alloc::Layout::from_size_align(pages * PAGE, PAGE).unwrap();
            let host = unsafe { std::alloc::alloc_zeroed(layout) };
            let pa = w.next_dma_pa;
            w.next_dma_pa += ((pages + 3) * PAGE) as u64;
            w.dma.insert(pa, DmaRegion { pa, host, pages, dir: direction.into(), ap: access_platform, seq });
            w.dev(json!({"e":"DmaAlloc","seq":seq,"pa":hex(pa),"pal":limbs(pa,4),"pages":pages,
                         "dir":Dir::from(direction).name(),"ap":access_platform,"failed":false}));
            (pa, NonNull::new(host).unwrap())
        })
    }

    unsafe fn dma_dealloc(paddr: PhysAddr, vaddr: NonNull<u8>, pages: usize, access_platform: bool) -> i32 {
        with_world(|w| {
            let known = w.dma.get(&paddr).map(|r| (r.host, r.pages, r.ap, r.seq));
            let (va_ok, pages_ok, ap_ok, seq) = match known {
                Some((h, p, a, s)) => (h == vaddr.as_ptr(), p == pages, a == access_platform, s),
                None => (false, false, false, 0),
            };
            w.dev(json!({"e":"DmaDealloc","pa":hex(paddr),"pal":limbs(paddr,4),"known":known.is_some(),"seq":seq,
                         "va_ok":va_ok,"pages":pages,"pages_ok":pages_ok,"ap":access_platform,"ap_ok":ap_ok}));
            if known.is_some() && va_ok && pages_ok {
                let r = w.dma.remove(&paddr).unwrap();
                // queues living in this region are gone for the device
                let dead: Vec<u16> = w
                    .queues
                    .iter()
                    .filter(|(_, q)| {
                        let inside = |pa: u64| pa >= r.pa && pa < r.pa + (r.pages * PAGE) as u64;
                        inside(q.desc_pa) || inside(q.avail_pa) || inside(q.used_pa)
                    })
                    .map(|(k, _)| *k)
                    .collect();
                for k in dead {
                    if let Some(q) = w.queues.get_mut(&k) {
                        q.live = false;
                    }
                }
                unsafe { std::alloc::dealloc(r.host, std::alloc::Layout::from_size_align(r.pages * PAGE, PAGE).unwrap()) };
            }
            0
        })
    }

    unsafe fn mmio_phys_to_virt(paddr: PhysAddr, size: usize) -> NonNull<u8> {
        crate::mmio::phys_to_virt(paddr, size)
    }

    unsafe fn share(buffer: NonNull<[u8]>, direction: BufferDirection, access_platform: bool) -> PhysAddr {
        with_world(|w| {
            let va = buffer.as_ptr() as *mut u8 as usize;
            let len = buffer.len();
            let dir: Dir = direction.into();
            let inplace = w.inplace;
            let mut bounce = vec![0u8; if inplace { 0 } else { len }].into_boxed_slice();
            if dir != Dir::FromDevice && !inplace {
                unsafe { std::ptr::copy_nonoverlapping(va as *const u8, bounce.as_mut_ptr(), len) };
            }
            let pa = w.next_share_pa;
            w.next_share_pa += ((len as u64 + 15) & !15) + 48;
            let q = w.cur_q.unwrap_or(0xffff);
            let is_buf = w.cur_bufs.iter().any(|(a, l)| *a == va && *l == len);
            let mut ev = json!({"e":"Share","pa":hex(pa),"va":hex(va as u64),"len":len,"dir":dir.name(),"ap":access_platform});
            if !is_buf && len % 16 == 0 && len > 0 {
                let bytes: &[u8] = if inplace { unsafe { std::slice::from_raw_parts(va as *const u8, len) } } else { &bounce };
                let image: Vec<Value> = bytes.chunks(16).map(desc_json).collect();
                ev["image"] = Value::Array(image);
            }
            w.shares.insert(pa, ShareRec { pa, va, len, dir, ap: access_platform, bounce });
            crate::alloc::shared_add(va, len, q, pa);
            w.qev(q, ev);
            pa
        })
    }

    unsafe fn unshare(paddr: PhysAddr, buffer: NonNull<[u8]>, direction: BufferDirection, access_platform: bool) {
        with_world(|w| {
            let va = buffer.as_ptr() as *mut u8 as usize;
            let len = buffer.len();
            let dir: Dir = direction.into();
            let q = w.cur_q.unwrap_or(0xffff);
            w.qev(q, json!({"e":"Unshare","pa":hex(paddr),"va":hex(va as u64),"len":len,"dir":dir.name(),"ap":access_platform}));
            // copy back only for an exactly matching live entry; anything else is left to the
            // specification to reject
            let matches = w.shares.get(&paddr).map(|s| s.va == va && s.len == len && s.dir == dir).unwrap_or(false);
            if matches {
                crate::alloc::shared_remove(paddr);
                let s = w.shares.remove(&paddr).unwrap();
                if dir != Dir::ToDevice && !s.bounce.is_empty() {
                    unsafe { std::ptr::copy_nonoverlapping(s.bounce.as_ptr(), va as *mut u8, len) };
                }
            }
        })
    }
}
