//! Trace output: scenarios run on worker threads and append complete blocks under a lock.

use std::fs::File;
use std::io::{BufWriter, Write};
use std::sync::Mutex;

pub struct Out {
    pub w: Mutex<BufWriter<File>>,
    pub events: std::sync::atomic::AtomicUsize,
}

impl Out {
    pub fn create(path: &str) -> Out {
        if let Some(p) = std::path::Path::new(path).parent() {
            std::fs::create_dir_all(p).ok();
        }
        Out { w: Mutex::new(BufWriter::new(File::create(path).expect("create trace file"))), events: Default::default() }
    }
    pub fn block(&self, lines: &[String]) {
        let mut w = self.w.lock().unwrap();
        for l in lines {
            w.write_all(l.as_bytes()).unwrap();
            w.write_all(b"\n").unwrap();
        }
        self.events.fetch_add(lines.len(), std::sync::atomic::Ordering::Relaxed);
    }
    pub fn finish(&self) {
        self.w.lock().unwrap().flush().unwrap();
    }
}

pub fn fnv64(data: &[u8]) -> String {
    let mut h: u64 = 0xcbf29ce484222325;
    for b in data {
        h ^= *b as u64;
        h = h.wrapping_mul(0x100000001b3);
    }
    format!("{:016x}", h)
}
