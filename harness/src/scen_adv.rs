//! Family `adv` (C07): every driver against a misbehaving device.
//!
//! The scenarios of the device families (block, console, network, socket, event queues, command
//! drivers) are re-run with the adversary layered over the reference device (see
//! `core::AdvState`): arbitrary used ids / lengths / index jumps, duplicated and dropped
//! completions, garbled response bytes, scribbling over descriptor table and available ring,
//! arbitrary configuration-space values and queue-size limits.  The device-level meaning of the
//! traffic is void then; what is recorded and validated is
//!   * every queue's trace (VirtQueueTrace with the `adv` flag: the driver side of the queue
//!     must still follow VirtQueue.tla step by step, ledger included), and
//!   * the driver-level stream reduced to Call / Ret / Panic / Stuck / DMA ledger / heap frees of
//!     shared memory (Adv.tla).
//! Panics are classified by their source location: inside /repo they are the driver's own
//! checks ("clean"), anywhere else they are harness errors and make the run a tool failure.

use crate::core::*;
use serde_json::{Value, json};
use std::cell::RefCell;

#[derive(Clone, Debug)]
pub struct AdvParams {
    pub sub: Value,
    pub p: f64,
    pub scribble: bool,
    pub seed: u64,
}

impl AdvParams {
    pub fn to_json(&self) -> Value {
        json!({"family":"adv","sub":self.sub,"p":self.p,"scribble":self.scribble,"seed":self.seed})
    }
    pub fn from_json(v: &Value) -> Self {
        AdvParams { sub: v["sub"].clone(), p: v["p"].as_f64().unwrap(), scribble: v["scribble"].as_bool().unwrap(), seed: v["seed"].as_u64().unwrap() }
    }
}

thread_local! {
    /// (file:line, is_stuck) of every panic on this thread since the last take
    pub static PANIC_LOCS: RefCell<Vec<(String, bool)>> = const { RefCell::new(Vec::new()) };
}

/// Is this panic location inside the crate under test?  (`/repo/`, or the scratch copy a
/// seeded-change run builds against: VH_REPO_PREFIX)
pub fn in_crate(loc: &str) -> bool {
    match std::env::var("VH_REPO_PREFIX") {
        Ok(p) => loc.starts_with(&p),
        Err(_) => loc.starts_with("/repo/"),
    }
}

pub fn note_panic(info: &std::panic::PanicHookInfo<'_>) {
    let loc = info.location().map(|l| format!("{}:{}", l.file(), l.line())).unwrap_or_else(|| "?".into());
    let stuck = info.payload().downcast_ref::<crate::hooks::Stuck>().is_some();
    // mark the instant in the driver-level stream: what follows is unwinding
    let marked = adv_active()
        && WORLD.with(|w| match w.try_borrow_mut() {
            Ok(mut w) => {
                w.trace.push((1, 0xffff, json!({"e":"PanicAt","loc":loc,"stuck":stuck}).to_string()));
                true
            }
            Err(_) => false,
        });
    if !marked {
        PANIC_LOCS.with(|p| p.borrow_mut().push((loc, stuck)));
    }
}

fn run_sub(sub: &Value, sc: &str) -> (Vec<Vec<String>>, Value) {
    match sub["family"].as_str().unwrap_or("") {
        "blk" => crate::scen_blk::run(&crate::scen_blk::BlkParams::from_json(sub), sc),
        "console" => crate::scen_console::run(&crate::scen_console::ConParams::from_json(sub), sc),
        "net" => crate::scen_net::run(&crate::scen_net::NetParams::from_json(sub), sc),
        "vsock" => crate::scen_vsock::run(&crate::scen_vsock::VsParams::from_json(sub), sc),
        "evq" => crate::scen_evq::run(&crate::scen_evq::EvqParams::from_json(sub), sc),
        "cmd" => crate::scen_cmd::run(&crate::scen_cmd::CmdParams::from_json(sub), sc),
        f => panic!("unknown sub-family {f}"),
    }
}

pub fn run(p: &AdvParams, sc: &str) -> (Vec<Vec<String>>, Value) {
    PANIC_LOCS.with(|l| l.borrow_mut().clear());
    ADV_DLINES.with(|d| d.borrow_mut().clear());
    ADV_MODE.with(|a| a.set(Some((p.seed, p.p, if p.scribble { 2 } else { 0 }))));
    let r = std::panic::catch_unwind(std::panic::AssertUnwindSafe(|| run_sub(&p.sub, sc)));
    let counts = with_world(|w| w.adv.as_ref().map(|a| json!(a.counts)).unwrap_or(Value::Null));
    ADV_MODE.with(|a| a.set(None));
    let locs: Vec<(String, bool)> = PANIC_LOCS.with(|l| std::mem::take(&mut *l.borrow_mut()));
    let (qsegs, sub_summary, escaped) = match r {
        Ok((mut v, s)) => (v.pop().unwrap_or_default(), s, false),
        Err(_) => (vec![], json!({"result":"escaped panic"}), true),
    };
    let all = ADV_DLINES.with(|d| std::mem::take(&mut *d.borrow_mut()));
    // reduce the driver-level stream
    let mut out = vec![json!({"e":"AdvReset","sc":sc,"kind":p.sub["family"],"sub":p.sub.get("kind").cloned().unwrap_or(json!("-"))}).to_string()];
    let mut last_pages: u64 = 0;
    let mut last_op = String::new();
    let mut harness_panics = vec![];
    let mut clean = 0;
    let mut stuck = 0;
    let mut pi = 0usize;
    for l in &all {
        let v: Value = match serde_json::from_str(l) {
            Ok(v) => v,
            Err(_) => continue,
        };
        match v["e"].as_str().unwrap_or("") {
            "DmaAlloc" => {
                let failed = v["failed"].as_bool().unwrap_or(false);
                let pages = v["pages"].as_u64().unwrap_or(0);
                if !failed {
                    last_pages = pages;
                }
                out.push(json!({"e":"DmaAlloc","seq":v["seq"],"pages":std::cmp::min(pages, 1 << 30),"failed":failed}).to_string());
            }
            "DmaDealloc" => {
                out.push(json!({"e":"DmaDealloc","seq":v["seq"],"known":v["known"],"va_ok":v["va_ok"],"pages_ok":v["pages_ok"],"ap_ok":v["ap_ok"]}).to_string());
            }
            // the device is live between DRIVER_OK and the next reset
            "T" if v["op"].as_str() == Some("set_status") => {
                let st = v["v"].as_u64().unwrap_or(0);
                out.push(json!({"e":"Status","driver_ok":st & 4 != 0,"reset":st == 0}).to_string());
            }
            // the console's single receive buffer (queue 0)
            "QAdd" if p.sub["family"] == "console" && v["q"].as_u64() == Some(0) => out.push(json!({"e":"RxPost"}).to_string()),
            "QPop" if p.sub["family"] == "console" && v["q"].as_u64() == Some(0) => out.push(json!({"e":"RxTake"}).to_string()),
            "FreeShared" => out.push(json!({"e":"FreeShared","q":v["q"],"during":last_op,"kind":p.sub["family"]}).to_string()),
            "Call" => {
                last_op = v["op"].as_str().unwrap_or("").to_string();
                out.push(json!({"e":"Call","op":last_op}).to_string());
            }
            "Ret" => {
                out.push(json!({"e":"Ret","ok":v["ok"].as_bool().unwrap_or(true)}).to_string());
                if (last_op == "setup_framebuffer" || last_op == "change_resolution") && v["ok"].as_bool() == Some(true) {
                    // the frame buffer slice handed to the caller against the DMA region behind it
                    let n = v["n"].as_u64().unwrap_or(0);
                    out.push(json!({"e":"Slice","what":"framebuffer","lenp":n.div_ceil(4096),"capp":last_pages}).to_string());
                }
            }
            "PanicAt" => {
                let loc = v["loc"].as_str().unwrap_or("?");
                if v["stuck"].as_bool() == Some(true) {
                    stuck += 1;
                    out.push(json!({"e":"Stuck"}).to_string());
                } else if in_crate(loc) {
                    clean += 1;
                    out.push(json!({"e":"Panic","clean":true,"loc":loc}).to_string());
                } else {
                    harness_panics.push(loc.to_string());
                }
            }
            "Panic" | "Stuck" => {
                // pair with the panics the hook saw, in order
                while pi < locs.len() {
                    let (loc, is_stuck) = &locs[pi];
                    pi += 1;
                    if *is_stuck {
                        stuck += 1;
                        out.push(json!({"e":"Stuck"}).to_string());
                    } else if in_crate(loc) {
                        clean += 1;
                        out.push(json!({"e":"Panic","clean":true,"loc":loc,"msg":v["msg"]}).to_string());
                    } else {
                        harness_panics.push(format!("{loc}: {}", v["msg"]));
                    }
                }
            }
            "Drop" => out.push(json!({"e":"Drop"}).to_string()),
            _ => {}
        }
    }
    while pi < locs.len() {
        let (loc, is_stuck) = &locs[pi];
        pi += 1;
        if *is_stuck {
            continue;
        }
        if in_crate(loc) {
            // a panic the scenario code caught itself (or during unwinding)
            clean += 1;
        } else {
            harness_panics.push(format!("{loc}: (escaped={escaped})"));
        }
    }
    let n = out.len();
    (
        vec![out, qsegs],
        json!({"result": sub_summary["result"], "events": n, "adversary": counts, "clean_panics": clean, "stuck": stuck, "harness_panics": harness_panics}),
    )
}

pub fn all_params(mode: &str, thorough: bool, seed: u64) -> Vec<AdvParams> {
    let mut subs: Vec<Value> = vec![];
    let pick = |v: Vec<Value>, every: usize, off: usize| -> Vec<Value> { v.into_iter().enumerate().filter(|(i, _)| i % every == off % every).map(|(_, x)| x).collect() };
    let k = if thorough { 1 } else { 3 };
    let o = seed as usize;
    subs.extend(pick(crate::scen_blk::all_params(false, seed).iter().map(|p| p.to_json()).collect(), k, o));
    subs.extend(pick(crate::scen_console::all_params(false, seed).iter().map(|p| p.to_json()).collect(), k, o));
    subs.extend(pick(crate::scen_net::all_params(false, seed).iter().map(|p| p.to_json()).collect(), k, o));
    subs.extend(pick(crate::scen_vsock::all_params("random", false, seed).iter().map(|p| p.to_json()).collect(), k, o));
    subs.extend(pick(crate::scen_evq::all_params(false, seed).iter().map(|p| p.to_json()).collect(), k, o));
    // (all sound scenarios: the non-blocking transfer paths are only reached late in a scenario)
    subs.extend(crate::scen_cmd::all_params("main", false, seed).iter().enumerate()
        .filter(|(i, p)| p.kind == "sound" || i % k == o % k).map(|(_, p)| p.to_json()));
    let mut v = vec![];
    let mut s = seed.wrapping_mul(69_621);
    let reps = if thorough { 3 } else { 1 };
    for rep in 0..reps {
        for (i, sub) in subs.iter().enumerate() {
            s += 1;
            // "plain": a standard-following device - the same driver-level bookkeeping (calls end,
            // DMA ledger, no free of shared heap memory while the driver is in use) for C09
            let plain = mode == "plain";
            let p = if plain { 0.0 } else { [0.05, 0.15, 0.4][(i + rep) % 3] };
            v.push(AdvParams { sub: sub.clone(), p, scribble: !plain && (i + rep) % 2 == 0, seed: s });
        }
    }
    v
}
