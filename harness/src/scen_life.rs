//! Family `life` (C08, C09): construct every driver for a given set of offered features / layout /
//! failing allocation, optionally use it, drop it.  Produces the driver-level trace (transport
//! calls, DMA ledger, frees of shared memory) and one queue-level trace per virtqueue.

use crate::core::*;
use crate::hooks;
use crate::transport::*;
use crate::zoo;
use serde_json::{Value, json};
use std::panic::{AssertUnwindSafe, catch_unwind};

#[derive(Clone, Debug)]
pub struct LifeParams {
    pub kind: String,
    pub offered: u64,
    pub legacy: bool,
    pub fail_at: usize,
    pub max_queue: u32,
    /// "full" | "empty" | "half" | "badtag" (9p: mount tag that is not UTF-8) | "zerotag"
    pub cfg_mode: String,
    /// "model" | "mmio" (version 1 if legacy else 2)
    pub transport: String,
}

impl LifeParams {
    pub fn to_json(&self) -> Value {
        json!({"family":"life","kind":self.kind,"offered":hex(self.offered),"legacy":self.legacy,"fail_at":self.fail_at,"max_queue":self.max_queue,"cfg_mode":self.cfg_mode,"transport":self.transport})
    }
    pub fn from_json(v: &Value) -> Self {
        LifeParams {
            kind: v["kind"].as_str().unwrap().into(),
            offered: u64::from_str_radix(v["offered"].as_str().unwrap().trim_start_matches("0x"), 16).unwrap(),
            legacy: v["legacy"].as_bool().unwrap(),
            fail_at: v["fail_at"].as_u64().unwrap() as usize,
            max_queue: v["max_queue"].as_u64().unwrap_or(32768) as u32,
            cfg_mode: v["cfg_mode"].as_str().unwrap_or("full").to_string(),
            transport: v["transport"].as_str().unwrap_or("model").to_string(),
        }
    }
}

/// Queue-level trace segments (one per queue) of the current world.
pub fn queue_segments(sc: &str) -> Vec<String> {
    let neg = negotiated();
    with_world(|w| {
        let mut v = vec![];
        let qs: Vec<(u16, usize)> = w.queues.iter().map(|(k, q)| (*k, q.n)).collect();
        for (q, n) in qs {
            let lines = w.q_lines(q);
            if lines.is_empty() {
                continue;
            }
            v.push(json!({"e":"Reset","sc":format!("{sc}/q{q}"),"n":n,"ind":neg >> 28 & 1 == 1,"ev":neg >> 29 & 1 == 1,"ap":neg >> 33 & 1 == 1,"adv":w.adv.is_some(),"inplace":w.inplace}).to_string());
            v.extend(lines);
        }
        v
    })
}

pub fn run(p: &LifeParams, sc: &str) -> (Vec<Vec<String>>, Value) {
    reset_world();
    hooks::install(Box::new(|_| {}));
    let mut cfg = zoo::config_space(&p.kind);
    match p.cfg_mode.as_str() {
        "empty" => cfg.clear(),
        "half" => cfg.truncate(cfg.len() / 2),
        "badtag" => {
            if let Some(b) = cfg.last_mut() {
                *b = 0xff;
            }
        }
        "zerotag" => {
            if cfg.len() >= 2 {
                cfg[0] = 0;
                cfg[1] = 0;
            }
        }
        _ => {}
    }
    enum AnyT {
        Model(ModelTransport),
        Mmio(virtio_drivers::transport::mmio::MmioTransport<'static>),
        Pci(virtio_drivers::transport::pci::PciTransport),
    }
    let cfg_len = cfg.len();
    let t = if p.transport.starts_with("pci") {
        use virtio_drivers::transport::pci::bus::{Cam, DeviceFunction, MmioCam, PciRoot};
        let mut d = crate::pci::VirtioPciDev::new(p.offered, zoo::num_queues(&p.kind), std::cmp::min(p.max_queue, 32768) as u16, cfg.clone(), 4);
        d.reset_lag = 2;
        crate::pci::install_standard((0, 3, 0), zoo::device_type(&p.kind) as u32, d, cfg.len(), !cfg.is_empty());
        crate::pci::with_bus(|b| b.log = false);
        let df = DeviceFunction { bus: 0, device: 3, function: 0 };
        let r = if p.transport == "pcicam" {
            let base = crate::pci::map_cam(Cam::Ecam);
            let mut root = PciRoot::new(unsafe { MmioCam::new(base, Cam::Ecam) });
            virtio_drivers::transport::pci::PciTransport::new::<LedgerHal, _>(&mut root, df)
        } else {
            let mut root = PciRoot::new(crate::pci::ModelCam);
            virtio_drivers::transport::pci::PciTransport::new::<LedgerHal, _>(&mut root, df)
        };
        AnyT::Pci(r.expect("pci transport"))
    } else if p.transport == "mmio" {
        let dev = std::rc::Rc::new(std::cell::RefCell::new(crate::mmio::VirtioMmioDev::new(
            if p.legacy { 1 } else { 2 }, zoo::device_type(&p.kind) as u32, p.offered, zoo::num_queues(&p.kind), p.max_queue, cfg.clone())));
        let size = 0x100 + cfg.len();
        let base = crate::mmio::map(size, dev, "mmio", 0);
        let hdr = std::ptr::NonNull::new(base as *mut virtio_drivers::transport::mmio::VirtIOHeader).unwrap();
        AnyT::Mmio(unsafe { virtio_drivers::transport::mmio::MmioTransport::new(hdr, size) }.expect("probe"))
    } else {
        AnyT::Model(ModelTransport::new(zoo::device_type(&p.kind), p.offered, p.legacy, zoo::num_queues(&p.kind), p.max_queue, cfg))
    };
    with_world(|w| {
        w.trace.clear();
        w.dev(json!({"e":"LifeReset","sc":sc,"kind":p.kind,"dev":zoo::device_type(&p.kind) as u32,"offl":limbs(p.offered,4),"legacy":p.legacy,"fail_at":p.fail_at}));
        w.fail_dma_at = if p.fail_at > 0 { Some(p.fail_at) } else { None };
    });
    let kind = p.kind.clone();
    let r = catch_unwind(AssertUnwindSafe(move || match t {
        AnyT::Model(t) => zoo::build(&kind, t),
        AnyT::Mmio(t) => zoo::build(&kind, t),
        AnyT::Pci(t) => zoo::build(&kind, t),
    }));
    let result;
    let mut segs = vec![];
    match r {
        Ok(Ok(driver)) => {
            with_world(|w| w.dev(json!({"e":"NewRet","ok":true})));
            result = "ok".to_string();
            segs = queue_segments(sc);
            let d = catch_unwind(AssertUnwindSafe(move || drop(driver)));
            if let Err(pn) = d {
                with_world(|w| w.dev(json!({"e":"Panic","call":"drop","msg":crate::scen_vq::panic_msg(&pn)})));
            }
        }
        Ok(Err(e)) => {
            with_world(|w| w.dev(json!({"e":"NewRet","ok":false,"err":format!("{:?}", e)})));
            result = format!("{:?}", e);
        }
        Err(pn) => {
            let m = crate::scen_vq::panic_msg(&pn);
            with_world(|w| w.dev(json!({"e":"Panic","call":"new","msg":m})));
            result = format!("panic: {m}");
        }
    }
    let allocs = with_world(|w| {
        w.dev(json!({"e":"LifeEnd"}));
        w.dma_calls
    });
    hooks::uninstall();
    let mlines = with_world(|w| {
        // register-level stream of lives on the real MMIO transport (C10); the PCI register
        // discipline is validated by the pci family (C11)
        let mut l = if p.transport == "mmio" { w.m_lines(&[]) } else { vec![] };
        if !l.is_empty() {
            l.insert(0, json!({"e":"MReset","sc":sc,"ver":if p.legacy { 1 } else { 2 },"cfg_len":cfg_len}).to_string());
        }
        l
    });
    let dlines = with_world(|w| {
        let l: Vec<String> = w.d_lines(&["Panic"]).into_iter().filter(|l| !l.contains("\"e\":\"TNew\"")).collect();
        w.trace.clear();
        l
    });
    let n = dlines.len() + segs.len();
    (vec![dlines, segs, mlines], json!({"result": result, "events": n, "dma_allocs": allocs}))
}

pub fn all_params(thorough: bool, seed: u64) -> Vec<LifeParams> {
    use rand::{Rng, SeedableRng};
    let mut rng = rand::rngs::SmallRng::seed_from_u64(seed);
    let mut v = vec![];
    for kind in zoo::KINDS {
        // feature sweep, no failure
        let mut offers: Vec<u64> = vec![0, u64::MAX, 1 << 32, (1 << 32) | (1 << 28) | (1 << 29) | (1 << 33)];
        for b in 0..64 {
            offers.push(1u64 << b);
        }
        for _ in 0..(if thorough { 200 } else { 8 }) {
            offers.push(rng.r#gen::<u64>());
            offers.push(rng.r#gen::<u64>() | (1 << 32));
        }
        for (i, o) in offers.iter().enumerate() {
            let legacy = if thorough { false } else { i % 2 == 1 };
            v.push(LifeParams { kind: kind.to_string(), offered: *o, legacy, fail_at: 0, max_queue: 32768, cfg_mode: "full".into(), transport: "model".into() });
            if thorough {
                v.push(LifeParams { kind: kind.to_string(), offered: *o, legacy: true, fail_at: 0, max_queue: 32768, cfg_mode: "full".into(), transport: "model".into() });
            }
        }
        // k-th allocation fails, both layouts, with and without indirect/event-idx
        for legacy in [false, true] {
            for o in [1u64 << 32, u64::MAX] {
                for k in 1..=9 {
                    v.push(LifeParams { kind: kind.to_string(), offered: o, legacy, fail_at: k, max_queue: 32768, cfg_mode: "full".into(), transport: "model".into() });
                }
            }
        }
        // queue smaller than the driver needs / refused
        v.push(LifeParams { kind: kind.to_string(), offered: 1 << 32, legacy: false, fail_at: 0, max_queue: 1, cfg_mode: "full".into(), transport: "model".into() });
        // configuration space missing / too small / malformed: construction fails part-way
        for m in ["empty", "half", "badtag", "zerotag"] {
            for legacy in [false, true] {
                v.push(LifeParams { kind: kind.to_string(), offered: 1 << 32, legacy, fail_at: 0, max_queue: 32768, cfg_mode: m.into(), transport: "model".into() });
            }
        }
    }
    let mm: Vec<LifeParams> = v
        .iter()
        .enumerate()
        .filter(|(i, p)| thorough || p.fail_at > 0 || p.cfg_mode != "full" || i % 3 == 0)
        .map(|(_, p)| LifeParams { transport: "mmio".into(), ..p.clone() })
        .collect();
    let pc: Vec<LifeParams> = v
        .iter()
        .enumerate()
        .filter(|(i, p)| !p.legacy && (thorough || p.fail_at > 0 || p.cfg_mode != "full" || i % 3 == 1))
        .map(|(i, p)| LifeParams { transport: if i % 2 == 0 { "pci".into() } else { "pcicam".into() }, ..p.clone() })
        .collect();
    v.extend(mm);
    v.extend(pc);
    v
}
