//! MMIO world behind safe-mmio's `custom-mmio` feature (filled in by the transport families).
use std::ptr::NonNull;

pub fn phys_to_virt(_paddr: u64, _size: usize) -> NonNull<u8> {
    NonNull::dangling()
}

pub struct World;
impl safe_mmio::MmioOps for World {
    unsafe fn read_u8(src: *const u8) -> u8 { unsafe { src.read_volatile() } }
    unsafe fn read_u16(src: *const u16) -> u16 { unsafe { src.read_volatile() } }
    unsafe fn read_u32(src: *const u32) -> u32 { unsafe { src.read_volatile() } }
    unsafe fn read_u64(src: *const u64) -> u64 { unsafe { src.read_volatile() } }
    unsafe fn write_u8(dst: *mut u8, value: u8) { unsafe { dst.write_volatile(value) } }
    unsafe fn write_u16(dst: *mut u16, value: u16) { unsafe { dst.write_volatile(value) } }
    unsafe fn write_u32(dst: *mut u32, value: u32) { unsafe { dst.write_volatile(value) } }
    unsafe fn write_u64(dst: *mut u64, value: u64) { unsafe { dst.write_volatile(value) } }
}
safe_mmio::set_mmio_ops!(World);
