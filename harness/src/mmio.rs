//! The MMIO world behind safe-mmio's `custom-mmio` feature: every register access of the real
//! `MmioTransport`, `PciTransport` and `MmioCam` arrives here with its address and width, is
//! logged, and is served by a register-level device model.

use crate::core::*;
use crate::transport::{call_cfg_cb, call_notify_cb};
use serde_json::json;
use std::cell::RefCell;
use std::ptr::NonNull;
use std::rc::Rc;

pub trait MmioDev {
    fn read(&mut self, off: usize, width: u8) -> u64;
    fn write(&mut self, off: usize, width: u8, v: u64);
}

pub struct Window {
    pub base: usize,
    pub size: usize,
    pub dev: Rc<RefCell<dyn MmioDev>>,
    pub label: &'static str,
    /// device ("physical") address of the window, for PCI BARs reached through mmio_phys_to_virt
    pub pa: u64,
    layout: std::alloc::Layout,
}

thread_local! {
    /// configuration update (generation, bytes) requested by a scenario while the device model is
    /// busy serving an access; applied before that access is answered
    pub static PENDING_CFG: RefCell<Option<(u32, Vec<u8>)>> = const { RefCell::new(None) };
    static WINDOWS: RefCell<Vec<Window>> = const { RefCell::new(Vec::new()) };
}

/// Reserve a host address range for a window and route accesses inside it to `dev`.
pub fn map(size: usize, dev: Rc<RefCell<dyn MmioDev>>, label: &'static str, pa: u64) -> *mut u8 {
    let layout = std::alloc::Layout::from_size_align(std::cmp::max(size, 8).next_multiple_of(8), 4096).unwrap();
    // the memory is never dereferenced (all accesses are intercepted); it only reserves addresses
    let base = unsafe { std::alloc::alloc_zeroed(layout) };
    WINDOWS.with(|w| w.borrow_mut().push(Window { base: base as usize, size, dev, label, pa, layout }));
    base
}

pub fn unmap_all() {
    WINDOWS.with(|w| {
        for win in w.borrow_mut().drain(..) {
            unsafe { std::alloc::dealloc(win.base as *mut u8, win.layout) };
        }
    });
}

fn find(addr: usize, width: usize) -> Option<(Rc<RefCell<dyn MmioDev>>, usize, &'static str)> {
    WINDOWS.with(|w| {
        for win in w.borrow().iter() {
            if addr >= win.base && addr + width <= win.base + win.size {
                return Some((win.dev.clone(), addr - win.base, win.label));
            }
        }
        None
    })
}

/// A window nobody registered: accesses are logged as strays of that window.
pub struct AdhocDev {
    pub pa: u64,
    pub page_off: usize,
}
impl MmioDev for AdhocDev {
    fn read(&mut self, off: usize, width: u8) -> u64 {
        let off = off as i64 - self.page_off as i64;
        with_world(|w| w.reg(json!({"e":"M","sp":"adhoc","rw":"r","off":off,"w":width,"v":"0x0","vl":[0,0,0,0],"pa":hex(self.pa),"pal":limbs(self.pa,4)})));
        0
    }
    fn write(&mut self, off: usize, width: u8, v: u64) {
        let off = off as i64 - self.page_off as i64;
        with_world(|w| w.reg(json!({"e":"M","sp":"adhoc","rw":"w","off":off,"w":width,"v":hex(v),"vl":limbs(v,4),"pa":hex(self.pa),"pal":limbs(self.pa,4)})));
    }
}

/// `Hal::mmio_phys_to_virt`: PCI BAR regions are windows registered with their device address;
/// anything else gets an ad-hoc window (same offset within a page), so that what the transport
/// does with a region it should not have mapped is still observed.
pub fn phys_to_virt(paddr: u64, size: usize) -> NonNull<u8> {
    let r = WINDOWS.with(|w| {
        for win in w.borrow().iter() {
            if win.pa != 0 && paddr >= win.pa && paddr.checked_add(size as u64).map(|e| e <= win.pa + win.size as u64).unwrap_or(false) {
                return Some((win.base + (paddr - win.pa) as usize) as *mut u8);
            }
        }
        None
    });
    with_world(|w| w.reg(json!({"e":"PhysToVirt","pa":hex(paddr),"pal":limbs(paddr,4),"sizel":limbs(size as u64,4),"mapped":r.is_some()})));
    match r {
        Some(p) => NonNull::new(p).unwrap(),
        None => {
            let page_off = (paddr & 0xfff) as usize;
            let win = std::cmp::min(size, 0x10000) + page_off + 64;
            let base = map(win, Rc::new(RefCell::new(AdhocDev { pa: paddr, page_off })), "adhoc", 0);
            NonNull::new(unsafe { base.add(page_off) }).unwrap()
        }
    }
}

fn do_read(addr: usize, width: u8) -> u64 {
    match find(addr, width as usize) {
        Some((dev, off, _)) => dev.borrow_mut().read(off, width),
        None => {
            with_world(|w| w.reg(json!({"e":"MmioStray","rw":"r","addr":hex(addr as u64),"w":width})));
            0
        }
    }
}
fn do_write(addr: usize, width: u8, v: u64) {
    match find(addr, width as usize) {
        Some((dev, off, _)) => dev.borrow_mut().write(off, width, v),
        None => with_world(|w| w.reg(json!({"e":"MmioStray","rw":"w","addr":hex(addr as u64),"w":width,"v":hex(v)}))),
    }
}

pub struct Backend;
impl safe_mmio::MmioOps for Backend {
    unsafe fn read_u8(src: *const u8) -> u8 {
        do_read(src as usize, 1) as u8
    }
    unsafe fn read_u16(src: *const u16) -> u16 {
        do_read(src as usize, 2) as u16
    }
    unsafe fn read_u32(src: *const u32) -> u32 {
        do_read(src as usize, 4) as u32
    }
    unsafe fn read_u64(src: *const u64) -> u64 {
        do_read(src as usize, 8)
    }
    unsafe fn write_u8(dst: *mut u8, value: u8) {
        do_write(dst as usize, 1, value as u64)
    }
    unsafe fn write_u16(dst: *mut u16, value: u16) {
        do_write(dst as usize, 2, value as u64)
    }
    unsafe fn write_u32(dst: *mut u32, value: u32) {
        do_write(dst as usize, 4, value as u64)
    }
    unsafe fn write_u64(dst: *mut u64, value: u64) {
        do_write(dst as usize, 8, value)
    }
}
safe_mmio::set_mmio_ops!(Backend);

// ------------------------------------------------------------------------------------------------
/// Log one register access (stream 2).
pub fn log_access(space: &str, rw: &str, off: usize, width: u8, v: u64) {
    with_world(|w| w.reg(json!({"e":"M","sp":space,"rw":rw,"off":off,"w":width,"v":hex(v),"vl":limbs(v,4)})));
}

#[derive(Clone, Default, Debug)]
pub struct MmioQueue {
    pub num_max: u32,
    pub num: u32,
    pub ready: u32,
    pub pfn: u32,
    pub align: u32,
    pub desc: u64,
    pub driver: u64,
    pub device: u64,
}

/// Register-level model of a virtio-mmio device (Virtio 1.2 section 4.2.2 / 4.2.4).
pub struct VirtioMmioDev {
    pub magic: u32,
    pub version: u32,
    pub device_id: u32,
    pub vendor_id: u32,
    pub offered: u64,
    pub dev_sel: u32,
    pub drv_sel: u32,
    pub negotiated: u64,
    pub page_size: u32,
    pub queue_sel: u32,
    pub queues: Vec<MmioQueue>,
    pub isr: u32,
    pub status: u32,
    pub config: Vec<u8>,
    pub config_gen: u32,
    /// emit the abstract transport events (status, features, queue_set, notify) and register
    /// queues with the reference device
    pub semantic: bool,
}

impl VirtioMmioDev {
    pub fn new(version: u32, device_id: u32, offered: u64, nqueues: usize, num_max: u32, config: Vec<u8>) -> Self {
        VirtioMmioDev {
            magic: 0x7472_6976,
            version,
            device_id,
            vendor_id: 0x554d4551,
            offered,
            dev_sel: 0,
            drv_sel: 0,
            negotiated: 0,
            page_size: 0,
            queue_sel: 0,
            queues: vec![MmioQueue { num_max, ..Default::default() }; nqueues],
            isr: 0,
            status: 0,
            config,
            config_gen: 0,
            semantic: true,
        }
    }
    fn apply_pending(&mut self) {
        if let Some((g, bytes)) = PENDING_CFG.with(|p| p.borrow_mut().take()) {
            self.config = bytes;
            self.config_gen = g;
        }
    }
    fn q(&mut self) -> Option<&mut MmioQueue> {
        let s = self.queue_sel as usize;
        self.queues.get_mut(s)
    }
    fn tev(&self, v: serde_json::Value) {
        if self.semantic {
            with_world(|w| w.dev(v));
        }
    }
    fn reset(&mut self) {
        self.negotiated = 0;
        self.dev_sel = 0;
        self.drv_sel = 0;
        self.queue_sel = 0;
        self.isr = 0;
        for q in self.queues.iter_mut() {
            let m = q.num_max;
            *q = MmioQueue { num_max: m, ..Default::default() };
        }
        if self.semantic {
            with_world(|w| {
                for (_, q) in w.queues.iter_mut() {
                    q.live = false;
                }
            });
        }
    }
    fn queue_enabled(&mut self) {
        let qi = self.queue_sel as u16;
        let legacy = self.version == 1;
        let page = self.page_size as u64;
        let st = self.status;
        let Some(q) = self.q().cloned() else { return };
        let (n, desc, avail, used) = if legacy {
            let desc = q.pfn as u64 * page;
            let avail = desc + 16 * q.num as u64;
            let end = avail + 6 + 2 * q.num as u64;
            let al = std::cmp::max(q.align as u64, 1);
            (q.num, desc, avail, end.div_ceil(al) * al)
        } else {
            (q.num, q.desc, q.driver, q.device)
        };
        self.tev(json!({"e":"T","op":"queue_set","q":qi,"size":n,"desc":hex(desc),"avail":hex(avail),"used":hex(used),
                        "descl":limbs(desc,4),"availl":limbs(avail,4),"usedl":limbs(used,4),"status":st}));
        if self.semantic && n > 0 && (n as usize).is_power_of_two() {
            with_world(|w| w.queue_register(qi, n as usize, desc, avail, used));
        }
    }
    fn queue_disabled(&mut self) {
        let qi = self.queue_sel as u16;
        self.tev(json!({"e":"T","op":"queue_unset","q":qi}));
        if self.semantic {
            with_world(|w| {
                if let Some(q) = w.queues.get_mut(&qi) {
                    q.live = false;
                }
            });
        }
    }
}

impl MmioDev for VirtioMmioDev {
    fn read(&mut self, off: usize, width: u8) -> u64 {
        if off >= 0x100 {
            call_cfg_cb("read", off - 0x100);
            self.apply_pending();
            let o = off - 0x100;
            let mut v = 0u64;
            for i in 0..width as usize {
                v |= (self.config.get(o + i).copied().unwrap_or(0xee) as u64) << (8 * i);
            }
            log_access("mmio", "r", off, width, v);
            self.tev(json!({"e":"T","op":"cfg_read","off":o,"size":width,"ok":true}));
            return v;
        }
        let v: u32 = match off {
            0x000 => self.magic,
            0x004 => self.version,
            0x008 => self.device_id,
            0x00c => self.vendor_id,
            0x010 => {
                let v = if self.dev_sel == 0 { self.offered as u32 } else if self.dev_sel == 1 { (self.offered >> 32) as u32 } else { 0 };
                if self.dev_sel == 0 {
                    self.tev(json!({"e":"T","op":"read_features","v":hex(self.offered)}));
                }
                v
            }
            0x034 => self.queues.get(self.queue_sel as usize).map(|q| q.num_max).unwrap_or(0),
            0x040 => self.queues.get(self.queue_sel as usize).map(|q| q.pfn).unwrap_or(0),
            0x044 => self.queues.get(self.queue_sel as usize).map(|q| q.ready).unwrap_or(0),
            0x060 => self.isr,
            0x070 => self.status,
            0x0fc => {
                call_cfg_cb("gen", 0);
                self.apply_pending();
                self.tev(json!({"e":"T","op":"cfg_gen","v":self.config_gen}));
                self.config_gen
            }
            _ => 0,
        };
        log_access("mmio", "r", off, width, v as u64);
        v as u64
    }

    fn write(&mut self, off: usize, width: u8, v: u64) {
        log_access("mmio", "w", off, width, v);
        if off >= 0x100 {
            let o = off - 0x100;
            for i in 0..width as usize {
                if let Some(b) = self.config.get_mut(o + i) {
                    *b = (v >> (8 * i)) as u8;
                }
            }
            self.tev(json!({"e":"T","op":"cfg_write","off":o,"size":width,"ok":true}));
            return;
        }
        let v32 = v as u32;
        match off {
            0x014 => self.dev_sel = v32,
            0x020 => {
                if self.drv_sel == 0 {
                    self.negotiated = (self.negotiated & !0xffff_ffff) | v32 as u64;
                } else if self.drv_sel == 1 {
                    self.negotiated = (self.negotiated & 0xffff_ffff) | ((v32 as u64) << 32);
                    let n = self.negotiated;
                    self.tev(json!({"e":"T","op":"write_features","v":hex(n),"vl":limbs(n,4)}));
                    if self.semantic {
                        crate::transport::set_negotiated(n);
                    }
                }
            }
            0x024 => self.drv_sel = v32,
            0x028 => {
                self.page_size = v32;
                self.tev(json!({"e":"T","op":"set_guest_page_size","v":v32}));
            }
            0x030 => self.queue_sel = v32,
            0x038 => {
                if let Some(q) = self.q() {
                    q.num = v32;
                }
            }
            0x03c => {
                if let Some(q) = self.q() {
                    q.align = v32;
                }
            }
            0x040 => {
                let was = self.q().map(|q| q.pfn).unwrap_or(0);
                if let Some(q) = self.q() {
                    q.pfn = v32;
                }
                if v32 != 0 {
                    self.queue_enabled();
                } else if was != 0 {
                    self.queue_disabled();
                }
            }
            0x044 => {
                let was = self.q().map(|q| q.ready).unwrap_or(0);
                if let Some(q) = self.q() {
                    q.ready = v32 & 1;
                }
                if v32 & 1 == 1 && was == 0 {
                    self.queue_enabled();
                } else if v32 & 1 == 0 && was != 0 {
                    self.queue_disabled();
                }
            }
            0x050 => {
                let st = self.status;
                self.tev(json!({"e":"T","op":"notify","q":v32,"status":st}));
                if self.semantic {
                    with_world(|w| w.qev(v32 as u16, json!({"e":"Notify"})));
                    call_notify_cb(v32 as u16);
                }
            }
            0x064 => self.isr &= !v32,
            0x070 => {
                self.status = v32;
                self.tev(json!({"e":"T","op":"set_status","v":v32}));
                if v32 == 0 {
                    self.reset();
                }
            }
            0x080 => {
                if let Some(q) = self.q() {
                    q.desc = (q.desc & !0xffff_ffff) | v32 as u64;
                }
            }
            0x084 => {
                if let Some(q) = self.q() {
                    q.desc = (q.desc & 0xffff_ffff) | ((v32 as u64) << 32);
                }
            }
            0x090 => {
                if let Some(q) = self.q() {
                    q.driver = (q.driver & !0xffff_ffff) | v32 as u64;
                }
            }
            0x094 => {
                if let Some(q) = self.q() {
                    q.driver = (q.driver & 0xffff_ffff) | ((v32 as u64) << 32);
                }
            }
            0x0a0 => {
                if let Some(q) = self.q() {
                    q.device = (q.device & !0xffff_ffff) | v32 as u64;
                }
            }
            0x0a4 => {
                if let Some(q) = self.q() {
                    q.device = (q.device & 0xffff_ffff) | ((v32 as u64) << 32);
                }
            }
            _ => {}
        }
    }
}
