//! Family `vq`: the public `VirtQueue` API driven directly (C01-C05, C07).
//!
//! The caller side submits random buffer sets, polls with right and wrong tokens and queries the
//! queue; the device side is scheduled at every hook point (after each device-visible store and
//! the fence) and between calls, takes entries in ring order and completes any taken chain.

use crate::anyq::*;
use crate::core::*;
use crate::hooks::{self, Point};
use crate::out::fnv64;
use crate::transport::*;
use rand::rngs::SmallRng;
use rand::{Rng, SeedableRng};
use serde_json::{Value, json};
use std::cell::RefCell;
use std::collections::BTreeMap;
use std::panic::{AssertUnwindSafe, catch_unwind};
use std::rc::Rc;
use virtio_drivers::transport::DeviceType;

#[derive(Clone, Debug)]
pub struct VqParams {
    pub n: usize,
    pub indirect: bool,
    pub event_idx: bool,
    pub ap: bool,
    pub legacy: bool,
    pub ops: usize,
    pub seed: u64,
    /// "random" | "wrap" | "adversary"
    pub mode: String,
}

impl VqParams {
    pub fn to_json(&self) -> Value {
        json!({"family":"vq","n":self.n,"indirect":self.indirect,"event_idx":self.event_idx,"ap":self.ap,
               "legacy":self.legacy,"ops":self.ops,"seed":self.seed,"mode":self.mode})
    }
    pub fn from_json(v: &Value) -> VqParams {
        VqParams {
            n: v["n"].as_u64().unwrap() as usize,
            indirect: v["indirect"].as_bool().unwrap(),
            event_idx: v["event_idx"].as_bool().unwrap(),
            ap: v["ap"].as_bool().unwrap(),
            legacy: v["legacy"].as_bool().unwrap_or(false),
            ops: v["ops"].as_u64().unwrap() as usize,
            seed: v["seed"].as_u64().unwrap(),
            mode: v["mode"].as_str().unwrap().to_string(),
        }
    }
}

struct Sub {
    ins: Vec<Box<[u8]>>,
    outs: Vec<Box<[u8]>>,
}

fn out_digest(outs: &[Box<[u8]>]) -> String {
    let mut all = Vec::new();
    for o in outs {
        all.extend_from_slice(o);
    }
    fnv64(&all)
}

/// The device scheduler shared between the hook closure and the scenario loop.
pub struct DevSched {
    pub rng: SmallRng,
    pub q: u16,
    pub indirect_ok: bool,
    pub p_take: f64,
    pub p_complete: f64,
    pub adversary: bool,
    pub completed: usize,
}

impl DevSched {
    pub fn take(&mut self) -> bool {
        with_world(|w| w.dev_take(self.q, self.indirect_ok)).is_some()
    }
    pub fn complete_one(&mut self) -> bool {
        let pick = with_world(|w| {
            let r = w.queues.get(&self.q)?;
            if r.taken.is_empty() {
                return None;
            }
            let k = self.rng.gen_range(0..r.taken.len());
            Some(r.taken[k].clone())
        });
        let Some(c) = pick else { return false };
        let wl = World::chain_writable_len(&c);
        let len = if wl == 0 { 0 } else { self.rng.gen_range(0..=wl) };
        let mut data = vec![0u8; len];
        self.rng.fill(&mut data[..]);
        with_world(|w| {
            let written = w.chain_write(self.q, &c, &data);
            let wd = w.chain_writable_digest(&c);
            w.dev_complete(self.q, c.head, written as u32, Some(wd));
        });
        self.completed += 1;
        true
    }
    /// A few random device steps.
    pub fn step(&mut self) {
        for _ in 0..3 {
            if self.rng.gen_bool(self.p_take) {
                self.take();
            }
            if self.rng.gen_bool(self.p_complete) {
                self.complete_one();
            }
        }
    }
    /// Make everything the driver published complete (used before a pop that must succeed).
    pub fn drain(&mut self) {
        while self.take() {}
        while self.complete_one() {}
    }
}

pub struct VqOutcome {
    pub lines: Vec<String>,
    pub summary: Value,
}

fn err_name(e: virtio_drivers::Error) -> String {
    format!("{:?}", e)
}

/// Blank heap addresses (two runs of one scenario need not get the same ones).
fn normalise(lines: &[String]) -> Vec<String> {
    let mut ids: BTreeMap<String, usize> = BTreeMap::new();
    fn walk(v: &mut Value, ids: &mut BTreeMap<String, usize>) {
        match v {
            Value::Object(m) => {
                for (k, x) in m.iter_mut() {
                    if k == "va" {
                        // heap addresses are reused in ways that depend on the harness's own
                        // allocations: not compared
                        *x = json!(0);
                    } else {
                        walk(x, ids);
                    }
                }
            }
            Value::Array(a) => a.iter_mut().for_each(|x| walk(x, ids)),
            _ => {}
        }
    }
    lines
        .iter()
        .filter(|l| !l.contains("\"e\":\"DevScribble\""))
        .map(|l| {
            let mut v: Value = serde_json::from_str(l).unwrap();
            walk(&mut v, &mut ids);
            v.to_string()
        })
        .collect()
}

/// C07 at the queue API.  The scenario runs twice against the same misbehaving device (bogus
/// ids / lengths / index jumps, duplicates, dropped completions): once with the device only
/// *pretending* to overwrite the descriptor table and available ring, once doing it.  The
/// second recording is what TLC validates; it must equal the first one event for event.
/// Every fourth random history starts just below the wrap of the ring indices; decided by a mix
/// of the seed so that it is independent of the feature flags (which follow the seed's low bits).
fn near_wrap_start(seed: u64) -> bool {
    (seed.wrapping_mul(0x9E37_79B9_7F4A_7C15) >> 61) & 3 == 1
}

pub fn run(p: &VqParams, sc: &str) -> VqOutcome {
    if p.mode != "adversary" {
        return run_inner(p, sc);
    }
    ADV_MODE.with(|a| a.set(Some((p.seed ^ 0xadd, 0.3, 1))));
    let a = run_inner(p, sc);
    ADV_MODE.with(|a| a.set(Some((p.seed ^ 0xadd, 0.3, 2))));
    let mut b = run_inner(p, sc);
    ADV_MODE.with(|a| a.set(None));
    let (na, nb) = (normalise(&a.lines), normalise(&b.lines));
    let scribbles = b.lines.iter().filter(|l| l.contains("\"e\":\"DevScribble\"")).count();
    b.summary["scribbles"] = json!(scribbles);
    if na != nb {
        let k = na.iter().zip(nb.iter()).position(|(x, y)| x != y).unwrap_or(std::cmp::min(na.len(), nb.len()));
        b.lines.push(json!({"e":"DiffMismatch","at":k,"clean":na.get(k),"scribbled":nb.get(k)}).to_string());
        b.summary["diff"] = json!("MISMATCH");
    }
    b
}

fn run_inner(p: &VqParams, sc: &str) -> VqOutcome {
    reset_world();
    with_world(|w| w.external_calls = true);
    let q: u16 = 0;
    let mut rng = SmallRng::seed_from_u64(p.seed);
    let sched = Rc::new(RefCell::new(DevSched {
        rng: SmallRng::seed_from_u64(p.seed ^ 0x9e3779b97f4a7c15),
        q,
        indirect_ok: p.indirect,
        p_take: if p.mode == "wrap" { 0.05 } else { 0.35 },
        p_complete: if p.mode == "wrap" { 0.05 } else { 0.3 },
        adversary: p.mode == "adversary",
        completed: 0,
    }));
    {
        let s = sched.clone();
        hooks::install(Box::new(move |pt: Point| {
            if let Point::Store(_) = pt {
                s.borrow_mut().step();
            }
        }));
    }
    let mut transport = ModelTransport::new(DeviceType::Block, 0, p.legacy, 1, p.n as u32, vec![]);
    let mut queue = match make_queue(p.n, &mut transport, q, p.indirect, p.event_idx, p.ap) {
        Ok(qq) => qq,
        Err(e) => {
            hooks::uninstall();
            return VqOutcome { lines: vec![], summary: json!({"error": err_name(e)}) };
        }
    };
    with_world(|w| w.end_new(q));

    let mut held: BTreeMap<u16, Sub> = BTreeMap::new();
    // adversary runs: buffers of consumed submissions whose token has not been handed out again
    // (a caller that keeps one buffer set per token and pops whatever peek_used reports)
    let mut consumed: BTreeMap<u16, Sub> = BTreeMap::new();
    let mut stats = json!({"adds":0,"add_refused":0,"pops":0,"pop_notready":0,"pop_wrong":0,"pop_stale":0,"queries":0,"max_outstanding":0});
    let bump = |s: &mut Value, k: &str| s[k] = json!(s[k].as_u64().unwrap() + 1);
    let max_bufs = std::cmp::min(p.n + 1, 6);
    let wrap = p.mode == "wrap";

    let notify_mode = p.mode == "notify";
    // fast-forward bases for the notify mode: the interesting places of the 16-bit index space
    // (boundary, i.e. the index value just after which interesting things happen)
    let bases: [u16; 6] = [0, 32768, 0, 16384, 32768, 49152];
    let mut next_base = 0usize;
    let mut i = 0usize;
    if p.mode == "random" && near_wrap_start(p.seed) {
        // every fourth random history starts just below the wrap of the 16-bit ring indices, so
        // that out-of-order completion, partial polls and refused calls also happen across it
        let target: u16 = 0u16.wrapping_sub(3 + (p.seed % 23) as u16);
        with_world(|w| w.muted = true);
        let mut b = [0u8; 4];
        loop {
            let cur = with_world(|w| w.dev_avail_idx(q));
            if cur == target { break; }
            let tok = unsafe { queue.add(&[], &mut [&mut b[..]]) }.expect("fast-forward add");
            sched.borrow_mut().drain();
            unsafe { queue.pop_used(tok, &[], &mut [&mut b[..]]) }.expect("fast-forward pop");
        }
        let _ = queue.should_notify();
        with_world(|w| {
            w.muted = false;
            let idx = w.dev_avail_idx(q);
            let ue = w.dev_used_event(q);
            let af = w.dev_avail_flags(q);
            let (uf, ae) = w.dev_used_fields(q);
            w.qev(q, json!({"e":"Skip","idx":idx,"used_event":ue,"avail_flags":af,"used_flags":uf,"avail_event":ae,"last_checked":idx}));
        });
    }
    while i < p.ops {
        if notify_mode && i % 250 == 0 && next_base < bases.len() {
            // quiesce (logged), then fast-forward the real queue without logging
            sched.borrow_mut().drain();
            let toks: Vec<u16> = held.keys().copied().collect();
            let mut order: Vec<u16> = vec![];
            // pop in used-ring order: peek tells which token is next
            for _ in 0..toks.len() {
                if let Some(t) = queue.peek_used() { order.push(t); } else { break; }
                let t = *order.last().unwrap();
                let Some(mut sub) = held.remove(&t) else { panic!("device completed {t} but caller holds {:?} (i={i})", held.keys().collect::<Vec<_>>()) };
                let pre = out_digest(&sub.outs);
                with_world(|w| {
                    w.cur_q = Some(q);
                    w.cur_bufs = sub.ins.iter().map(|b| (b.as_ptr() as usize, b.len())).chain(sub.outs.iter().map(|b| (b.as_ptr() as usize, b.len()))).collect();
                    w.qev(q, json!({"e":"PopCall","tok":t,"outdg":pre}));
                });
                let r = {
                    let in_refs: Vec<&[u8]> = sub.ins.iter().map(|b| &b[..]).collect();
                    let mut out_refs: Vec<&mut [u8]> = sub.outs.iter_mut().map(|b| &mut b[..]).collect();
                    unsafe { queue.pop_used(t, &in_refs, &mut out_refs) }
                };
                let post = out_digest(&sub.outs);
                with_world(|w| {
                    w.cur_q = None;
                    w.cur_bufs.clear();
                    match &r {
                        Ok(len) => w.qev(q, json!({"e":"PopRet","ok":true,"len":crate::core::hex(*len as u64),"outdg":post})),
                        Err(e) => w.qev(q, json!({"e":"PopRet","ok":false,"err":err_name(*e)})),
                    }
                });
            }
            if held.is_empty() {
                // batch size, where inside the batch the boundary is crossed, which of the new
                // entries the device asked to be told about
                let nb = rng.gen_range(1..=std::cmp::min(p.n, 3)) as u16;
                let d = rng.gen_range(0..=nb);
                let erel = rng.gen_range(0..nb) as u16;
                let target = bases[next_base].wrapping_sub(d);
                next_base += 1;
                with_world(|w| w.muted = true);
                let mut b = [0u8; 4];
                loop {
                    let cur = with_world(|w| w.dev_avail_idx(q));
                    if cur == target { break; }
                    let tok = unsafe { queue.add(&[], &mut [&mut b[..]]) }.expect("fast-forward add");
                    sched.borrow_mut().drain();
                    unsafe { queue.pop_used(tok, &[], &mut [&mut b[..]]) }.expect("fast-forward pop");
                }
                let _ = queue.should_notify();
                with_world(|w| {
                    w.muted = false;
                    let idx = w.dev_avail_idx(q);
                    let ue = w.dev_used_event(q);
                    let af = w.dev_avail_flags(q);
                    let (uf, ae) = w.dev_used_fields(q);
                    w.qev(q, json!({"e":"Skip","idx":idx,"used_event":ue,"avail_flags":af,"used_flags":uf,"avail_event":ae,"last_checked":idx}));
                    // the device asks for a notification at one of the next b entries
                    w.dev_set_avail_event(q, idx.wrapping_add(erel));
                });
                // a batch of b single-buffer submissions across the boundary, then the check
                let mut toks = vec![];
                for _ in 0..nb {
                    let mut buf = vec![0u8; 8].into_boxed_slice();
                    let va = buf.as_ptr() as u64;
                    with_world(|w| {
                        w.cur_q = Some(q);
                        w.cur_bufs = vec![(va as usize, 8)];
                        w.qev(q, json!({"e":"AddCall","bufs":[{"va":hex(va),"len":8,"dir":"FromDevice"}],"outdg":out_digest(std::slice::from_ref(&buf))}));
                    });
                    let r = unsafe { queue.add(&[], &mut [&mut buf[..]]) };
                    with_world(|w| {
                        w.cur_q = None;
                        w.cur_bufs.clear();
                        match &r {
                            Ok(tok) => w.qev(q, json!({"e":"AddRet","ok":true,"tok":tok})),
                            Err(e) => w.qev(q, json!({"e":"AddRet","ok":false,"err":err_name(*e)})),
                        }
                    });
                    if let Ok(tok) = r {
                        toks.push(tok);
                        held.insert(tok, Sub { ins: vec![], outs: vec![buf] });
                    }
                }
                let r = queue.should_notify();
                with_world(|w| w.qev(q, json!({"e":"Q","op":"should_notify","r":r})));
            }
        }
        i += 1;
        let roll: u32 = rng.gen_range(0..100);
        let outstanding = held.len();
        // in notify mode: more should_notify calls and avail_event moves, batches of adds in between
        let roll = if notify_mode && roll >= 60 { if roll < 80 { 91 } else if roll < 95 { 96 } else { roll } } else { roll };
        // (histories that start just below the index wrap first fill the queue, so that a full
        // queue - and refused submissions - straddle the wrap)
        let crossing = p.mode == "random" && near_wrap_start(p.seed) && i < 40 + 2 * std::cmp::min(p.n, 64);
        let want_add = if wrap { outstanding == 0 || (outstanding < p.n && roll < 30) } else if crossing { roll < 75 } else { roll < 40 };
        if want_add {
            // ---- add
            let (ni, no) = if wrap {
                if p.n >= 2 && rng.gen_bool(0.2) { (1, 1) } else if rng.gen_bool(0.5) { (1, 0) } else { (0, 1) }
            } else {
                let r: u32 = rng.gen_range(0..100);
                if r < 3 {
                    (0, 0)
                } else if r < 6 && p.n <= 64 {
                    let k = p.n + 1;
                    let a = rng.gen_range(0..=k);
                    (a, k - a)
                } else {
                    let total = rng.gen_range(1..=max_bufs);
                    let a = rng.gen_range(0..=total);
                    (a, total - a)
                }
            };
            let mk = |rng: &mut SmallRng| {
                let len = rng.gen_range(1..=48usize);
                let mut b = vec![0u8; len].into_boxed_slice();
                rng.fill(&mut b[..]);
                b
            };
            let ins: Vec<Box<[u8]>> = (0..ni).map(|_| mk(&mut rng)).collect();
            let mut outs: Vec<Box<[u8]>> = (0..no).map(|_| mk(&mut rng)).collect();
            let bufs: Vec<Value> = ins
                .iter()
                .map(|b| json!({"va":hex(b.as_ptr() as u64),"len":b.len(),"dir":"ToDevice"}))
                .chain(outs.iter().map(|b| json!({"va":hex(b.as_ptr() as u64),"len":b.len(),"dir":"FromDevice"})))
                .collect();
            with_world(|w| {
                w.cur_q = Some(q);
                w.cur_bufs = ins.iter().map(|b| (b.as_ptr() as usize, b.len())).chain(outs.iter().map(|b| (b.as_ptr() as usize, b.len()))).collect();
                w.qev(q, json!({"e":"AddCall","bufs":bufs,"outdg":out_digest(&outs)}));
            });
            let r = {
                let in_refs: Vec<&[u8]> = ins.iter().map(|b| &b[..]).collect();
                let mut out_refs: Vec<&mut [u8]> = outs.iter_mut().map(|b| &mut b[..]).collect();
                catch_unwind(AssertUnwindSafe(|| unsafe { queue.add(&in_refs, &mut out_refs) }))
            };
            with_world(|w| {
                w.cur_q = None;
                w.cur_bufs.clear();
                match &r {
                    Ok(Ok(tok)) => w.qev(q, json!({"e":"AddRet","ok":true,"tok":tok})),
                    Ok(Err(e)) => w.qev(q, json!({"e":"AddRet","ok":false,"err":err_name(*e)})),
                    Err(pn) => w.qev(q, json!({"e":"Panic","call":"add","msg":panic_msg(pn)})),
                }
                if let Some(mut rec) = w.queues.remove(&q) {
                    w.full_diff(&mut rec);
                    w.queues.insert(q, rec);
                }
            });
            match r {
                Ok(Ok(tok)) => {
                    bump(&mut stats, "adds");
                    consumed.remove(&tok);
                    held.insert(tok, Sub { ins, outs });
                    let m = stats["max_outstanding"].as_u64().unwrap().max(held.len() as u64);
                    stats["max_outstanding"] = json!(m);
                }
                Ok(Err(_)) => bump(&mut stats, "add_refused"),
                Err(_) => break,
            }
            continue;
        }
        if wrap || roll < 70 {
            // ---- pop
            // (in the long wrap runs the device is mostly, not always, done with everything)
            if (wrap && rng.gen_bool(0.85)) || (!wrap && rng.gen_bool(0.5)) {
                sched.borrow_mut().drain();
            } else {
                sched.borrow_mut().step();
            }
            let peek = queue.peek_used();
            let adversary = p.mode == "adversary";
            // a repeated completion of a chain already consumed, popped with that chain's buffers
            let stale = adversary && matches!(peek, Some(t) if !held.contains_key(&t) && consumed.contains_key(&t)) && rng.gen_bool(0.6);
            if adversary && held.is_empty() && !stale {
                continue;
            }
            let tok: u16 = match peek {
                Some(t) if stale => t,
                Some(t) if held.contains_key(&t) && (wrap || rng.gen_bool(0.85)) => t,
                _ if adversary => {
                    // the caller keeps its side of the contract: only tokens it holds
                    let ks: Vec<u16> = held.keys().copied().collect();
                    ks[rng.gen_range(0..ks.len())]
                }
                _ => {
                    // a token that is certainly not the next completion
                    let cands: Vec<u16> = held.keys().copied().filter(|t| Some(*t) != peek).collect();
                    if !cands.is_empty() && rng.gen_bool(0.7) {
                        cands[rng.gen_range(0..cands.len())]
                    } else {
                        let t = rng.gen_range(0..((p.n as u32).max(2) * 2).min(65535) as u16);
                        if Some(t) == peek { t.wrapping_add(1) } else { t }
                    }
                }
            };
            let mut sub = if stale { consumed.remove(&tok) } else { held.remove(&tok) };
            let pre = sub.as_ref().map(|s| out_digest(&s.outs)).unwrap_or_default();
            with_world(|w| {
                w.cur_q = Some(q);
                if let Some(s) = &sub {
                    w.cur_bufs = s.ins.iter().map(|b| (b.as_ptr() as usize, b.len())).chain(s.outs.iter().map(|b| (b.as_ptr() as usize, b.len()))).collect();
                }
                w.qev(q, json!({"e":"PopCall","tok":tok,"outdg":pre}));
            });
            let r = {
                let empty_in: Vec<Box<[u8]>> = vec![];
                let mut empty_out: Vec<Box<[u8]>> = vec![];
                let (ins, outs) = match sub.as_mut() {
                    Some(s) => (&s.ins, &mut s.outs),
                    None => (&empty_in, &mut empty_out),
                };
                catch_unwind(AssertUnwindSafe(|| {
                    let in_refs: Vec<&[u8]> = ins.iter().map(|b| &b[..]).collect();
                    let mut out_refs: Vec<&mut [u8]> = outs.iter_mut().map(|b| &mut b[..]).collect();
                    unsafe { queue.pop_used(tok, &in_refs, &mut out_refs) }
                }))
            };
            let post = sub.as_ref().map(|s| out_digest(&s.outs)).unwrap_or_default();
            with_world(|w| {
                w.cur_q = None;
                w.cur_bufs.clear();
                match &r {
                    Ok(Ok(len)) => w.qev(q, json!({"e":"PopRet","ok":true,"len":crate::core::hex(*len as u64),"outdg":post})),
                    Ok(Err(e)) => w.qev(q, json!({"e":"PopRet","ok":false,"err":err_name(*e)})),
                    Err(pn) => w.qev(q, json!({"e":"Panic","call":"pop_used","msg":panic_msg(pn)})),
                }
                if let Some(mut rec) = w.queues.remove(&q) {
                    w.full_diff(&mut rec);
                    w.queues.insert(q, rec);
                }
            });
            match r {
                Ok(Ok(_)) => {
                    bump(&mut stats, "pops");
                    if adversary {
                        if let Some(s) = sub.take() {
                            consumed.insert(tok, s);
                        }
                    }
                }
                Ok(Err(e)) => {
                    if let Some(s) = sub.take() {
                        if stale { consumed.insert(tok, s); bump(&mut stats, "pop_stale"); } else { held.insert(tok, s); }
                    }
                    if e == virtio_drivers::Error::NotReady { bump(&mut stats, "pop_notready") } else { bump(&mut stats, "pop_wrong") }
                }
                Err(_) => break,
            }
            continue;
        }
        if roll < 78 {
            sched.borrow_mut().step();
            continue;
        }
        bump(&mut stats, "queries");
        match roll {
            78..=81 => {
                let r = queue.can_pop();
                with_world(|w| w.qev(q, json!({"e":"Q","op":"can_pop","r":r})));
            }
            82..=85 => {
                let r = queue.peek_used().map(|t| t as i64).unwrap_or(-1);
                with_world(|w| w.qev(q, json!({"e":"Q","op":"peek","r":r})));
            }
            86..=89 => {
                let r = queue.available_desc();
                with_world(|w| w.qev(q, json!({"e":"Q","op":"avail_desc","r":r})));
            }
            90..=93 => {
                let r = queue.should_notify();
                with_world(|w| w.qev(q, json!({"e":"Q","op":"should_notify","r":r})));
            }
            94..=95 => {
                let en = rng.gen_bool(0.5);
                with_world(|w| w.qev(q, json!({"e":"SdnCall","en":en})));
                queue.set_dev_notify(en);
                with_world(|w| w.qev(q, json!({"e":"SdnRet"})));
            }
            96..=97 => {
                // the device moves its avail_event somewhere around the driver's index
                let idx = with_world(|w| w.dev_avail_idx(q));
                let v = if rng.gen_bool(0.9) { idx.wrapping_add(rng.gen_range(0..10u16)).wrapping_sub(5) } else { rng.r#gen::<u16>() };
                with_world(|w| w.dev_set_avail_event(q, v));
            }
            _ => {
                let v = rng.gen_range(0..2u16);
                with_world(|w| w.dev_set_used_flags(q, v));
            }
        }
    }
    // drain so that the queue is dropped with nothing outstanding (buffers stay alive until here)
    hooks::uninstall();
    drop(queue);
    drop(transport);
    let lines = with_world(|w| {
        let mut v = Vec::with_capacity(w.trace.len() + 1);
        v.push(json!({"e":"Reset","sc":sc,"n":p.n,"ind":p.indirect,"ev":p.event_idx,"ap":p.ap,"adv":w.adv.is_some()}).to_string());
        v.extend(w.q_lines(q));
        w.trace.clear();
        if let Some(a) = &w.adv {
            stats["adversary"] = json!(a.counts);
        }
        v
    });
    stats["completed"] = json!(sched.borrow().completed);
    stats["events"] = json!(lines.len());
    drop(held);
    VqOutcome { lines, summary: stats }
}

pub fn panic_msg(p: &Box<dyn std::any::Any + Send>) -> String {
    if let Some(s) = p.downcast_ref::<&str>() {
        s.to_string()
    } else if let Some(s) = p.downcast_ref::<String>() {
        s.clone()
    } else if p.downcast_ref::<hooks::Stuck>().is_some() {
        "STUCK".to_string()
    } else {
        "panic".to_string()
    }
}
