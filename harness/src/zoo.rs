//! The eleven drivers of the crate behind one constructor, generic over the transport.

use crate::core::LedgerHal;
use std::any::Any;
use virtio_drivers::Result;
use virtio_drivers::device::blk::VirtIOBlk;
use virtio_drivers::device::console::VirtIOConsole;
use virtio_drivers::device::gpu::VirtIOGpu;
use virtio_drivers::device::input::VirtIOInput;
use virtio_drivers::device::net::{VirtIONet, VirtIONetRaw};
use virtio_drivers::device::rng::VirtIORng;
use virtio_drivers::device::rtc::VirtIORtc;
use virtio_drivers::device::socket::VirtIOSocket;
use virtio_drivers::device::sound::VirtIOSound;
use virtio_drivers::device::virtio_9p::VirtIO9p;
use virtio_drivers::transport::{DeviceType, Transport};

pub const KINDS: [&str; 11] = ["blk", "console", "gpu", "input", "netraw", "net", "rng", "rtc", "socket", "sound", "9p"];
pub const NET_QUEUE_SIZE: usize = 4;
pub const NET_BUF_LEN: usize = 2048;

pub fn device_type(kind: &str) -> DeviceType {
    match kind {
        "blk" => DeviceType::Block,
        "console" => DeviceType::Console,
        "gpu" => DeviceType::GPU,
        "input" => DeviceType::Input,
        "netraw" | "net" => DeviceType::Network,
        "rng" => DeviceType::EntropySource,
        "rtc" => DeviceType::Timer,
        "socket" => DeviceType::Socket,
        "sound" => DeviceType::Sound,
        "9p" => DeviceType::_9P,
        _ => panic!("kind"),
    }
}

pub fn num_queues(kind: &str) -> usize {
    match kind {
        "blk" | "rng" | "rtc" | "9p" => 1,
        "console" | "gpu" | "input" | "netraw" | "net" => 2,
        "socket" => 3,
        "sound" => 4,
        _ => panic!("kind"),
    }
}

/// A plausible device configuration space for each kind.
pub fn config_space(kind: &str) -> Vec<u8> {
    match kind {
        "blk" => {
            let mut c = vec![0u8; 64];
            c[0..8].copy_from_slice(&0x0000_0001_0000_0040u64.to_le_bytes()); // capacity in sectors
            c[20..24].copy_from_slice(&512u32.to_le_bytes());
            c
        }
        "console" => {
            let mut c = vec![0u8; 12];
            c[0..2].copy_from_slice(&80u16.to_le_bytes());
            c[2..4].copy_from_slice(&24u16.to_le_bytes());
            c[4..8].copy_from_slice(&1u32.to_le_bytes());
            c
        }
        "gpu" => {
            let mut c = vec![0u8; 16];
            c[8..12].copy_from_slice(&1u32.to_le_bytes());
            c
        }
        "input" => vec![0u8; 136],
        "netraw" | "net" => {
            let mut c = vec![0u8; 12];
            c[0..6].copy_from_slice(&[0x52, 0x54, 0x00, 0x12, 0x34, 0x56]);
            c[6..8].copy_from_slice(&1u16.to_le_bytes());
            c
        }
        "socket" => 0x0000_0000_0000_002au64.to_le_bytes().to_vec(),
        "sound" => {
            let mut c = vec![0u8; 16];
            c[0..4].copy_from_slice(&2u32.to_le_bytes());
            c[4..8].copy_from_slice(&2u32.to_le_bytes());
            c[8..12].copy_from_slice(&1u32.to_le_bytes());
            c
        }
        "9p" => {
            let tag = b"verifshare";
            let mut c = vec![0u8; 2 + tag.len()];
            c[0..2].copy_from_slice(&(tag.len() as u16).to_le_bytes());
            c[2..].copy_from_slice(tag);
            c
        }
        _ => vec![],
    }
}

/// Construct the driver; the returned box owns it (drop the box to drop the driver).
pub fn build<T: Transport + 'static>(kind: &str, t: T) -> Result<Box<dyn Any>> {
    Ok(match kind {
        "blk" => Box::new(VirtIOBlk::<LedgerHal, T>::new(t)?),
        "console" => Box::new(VirtIOConsole::<LedgerHal, T>::new(t)?),
        "gpu" => Box::new(VirtIOGpu::<LedgerHal, T>::new(t)?),
        "input" => Box::new(VirtIOInput::<LedgerHal, T>::new(t)?),
        "netraw" => Box::new(VirtIONetRaw::<LedgerHal, T, NET_QUEUE_SIZE>::new(t)?),
        "net" => Box::new(VirtIONet::<LedgerHal, T, NET_QUEUE_SIZE>::new(t, NET_BUF_LEN)?),
        "rng" => Box::new(VirtIORng::<LedgerHal, T>::new(t)?),
        "rtc" => Box::new(VirtIORtc::<LedgerHal, T>::new(t)?),
        "socket" => Box::new(VirtIOSocket::<LedgerHal, T>::new(t)?),
        "sound" => Box::new(VirtIOSound::<LedgerHal, T>::new(t)?),
        "9p" => Box::new(VirtIO9p::<LedgerHal, T>::new(t)?),
        _ => panic!("unknown driver kind {kind}"),
    })
}
