//! Family `console` (C15): both byte streams of the console driver.

use crate::core::*;
use crate::engine::{self, EngineCore, Personality, Response, with_engine};
use crate::out::fnv64;
use crate::scen_blk::policy_of;
use crate::scen_life::queue_segments;
use crate::tmake;
use embedded_io::{BufRead, Read, ReadReady};
use rand::rngs::SmallRng;
use rand::{Rng, SeedableRng};
use serde_json::{Value, json};
use std::collections::VecDeque;
use std::panic::{AssertUnwindSafe, catch_unwind};
use virtio_drivers::device::console::VirtIOConsole;
use virtio_drivers::transport::Transport;

#[derive(Clone, Debug)]
pub struct ConParams {
    pub transport: String,
    pub legacy: bool,
    pub offered: u64,
    pub policy: String,
    pub ops: usize,
    pub seed: u64,
}
impl ConParams {
    pub fn to_json(&self) -> Value {
        json!({"family":"console","transport":self.transport,"legacy":self.legacy,"offered":hex(self.offered),"policy":self.policy,"ops":self.ops,"seed":self.seed})
    }
    pub fn from_json(v: &Value) -> Self {
        ConParams {
            transport: v["transport"].as_str().unwrap().into(),
            legacy: v["legacy"].as_bool().unwrap(),
            offered: u64::from_str_radix(v["offered"].as_str().unwrap().trim_start_matches("0x"), 16).unwrap(),
            policy: v["policy"].as_str().unwrap().into(),
            ops: v["ops"].as_u64().unwrap() as usize,
            seed: v["seed"].as_u64().unwrap(),
        }
    }
}

pub fn stream_byte(p: u64) -> u8 {
    ((p * 7 + 3) % 256) as u8
}

pub struct ConPers {
    /// chunk sizes the device still wants to deliver
    pub input: VecDeque<usize>,
    pub written: u64,
}
impl Personality for ConPers {
    fn as_any_mut(&mut self) -> &mut dyn std::any::Any {
        self
    }
    fn request_queues(&self) -> Vec<u16> {
        vec![1]
    }
    fn handle(&mut self, w: &mut World, _q: u16, chain: &Chain, readable: &[u8]) -> Option<Response> {
        let rl: Vec<u32> = chain.elems.iter().filter(|e| !e.w).map(|e| e.len).collect();
        let wl: Vec<u32> = chain.elems.iter().filter(|e| e.w).map(|e| e.len).collect();
        let affine = readable.windows(2).all(|w| w[1] == w[0].wrapping_add(7));
        let bytes: Vec<u8> = if readable.len() <= 64 { readable.to_vec() } else { vec![] };
        w.dev(json!({"e":"DevTx","dg":fnv64(readable),"len":readable.len(),"rl":rl,"wl":wl,"bytes":bytes,
                     "first":readable.first().copied().map(|b| b as i64).unwrap_or(-1),"affine":affine}));
        Some(Response { data: vec![], used_len: Some(0) })
    }
    fn idle(&mut self, w: &mut World, core: &mut EngineCore) -> bool {
        // deliver the next chunk of input if a receive buffer is available
        let Some(&k) = self.input.front() else { return false };
        let Some(chain) = w.dev_take(0, core.indirect_ok) else { return false };
        let cap = World::chain_writable_len(&chain);
        let k = std::cmp::min(k, cap);
        self.input.pop_front();
        let data: Vec<u8> = (0..k as u64).map(|i| stream_byte(self.written + i)).collect();
        w.dev(json!({"e":"DevFill","start":self.written,"k":k}));
        self.written += k as u64;
        EngineCore::finish(w, 0, &chain, &Response { data, used_len: None });
        tmake::raise_irq();
        true
    }
}

fn bytes_ret(bytes: &[u8]) -> Value {
    let affine = bytes.windows(2).all(|w| w[1] == w[0].wrapping_add(7));
    json!({"e":"Ret","ok":true,"n":bytes.len(),"first":bytes.first().copied().map(|b| b as i64).unwrap_or(-1),"affine":affine})
}

fn drive<T: Transport>(t: T, p: &ConParams, rng: &mut SmallRng) -> String {
    let mut con = match VirtIOConsole::<LedgerHal, T>::new(t) {
        Ok(c) => c,
        Err(e) => return format!("{:?}", e),
    };
    let dev = |v: Value| with_world(|w| w.dev(v));
    let fail = |e: virtio_drivers::Error| with_world(|w| w.dev(json!({"e":"Ret","ok":false,"err":format!("{:?}", e)})));
    for _ in 0..p.ops {
        let roll: u32 = rng.gen_range(0..100);
        // the device gets new input to deliver now and then
        if roll < 22 {
            let k = match rng.gen_range(0..10) { 0 => 4096, 1 => 4095, 2 => 1, 3 => 2, _ => rng.gen_range(1..200) };
            with_engine(|e| {
                e.pers_mut::<ConPers>().input.push_back(k);
                if e.core.rng.gen_bool(0.6) {
                    e.run(false);
                }
            });
            continue;
        }
        let has_input = with_engine(|e| !e.pers_mut::<ConPers>().input.is_empty());
        match roll {
            22..=33 => {
                dev(json!({"e":"Call","op":"recv_peek"}));
                match con.recv(false) {
                    Ok(v) => dev(json!({"e":"Ret","ok":true,"v":v.map(|b| b as i64).unwrap_or(-1)})),
                    Err(e) => fail(e),
                }
            }
            34..=52 => {
                dev(json!({"e":"Call","op":"recv_pop"}));
                match con.recv(true) {
                    Ok(v) => dev(json!({"e":"Ret","ok":true,"v":v.map(|b| b as i64).unwrap_or(-1)})),
                    Err(e) => fail(e),
                }
            }
            53..=62 => {
                dev(json!({"e":"Call","op":"read_ready"}));
                match con.read_ready() {
                    Ok(b) => dev(json!({"e":"Ret","ok":true,"b":b})),
                    Err(e) => fail(e),
                }
            }
            63..=68 => {
                dev(json!({"e":"Call","op":"ack_interrupt"}));
                match con.ack_interrupt() {
                    Ok(b) => dev(json!({"e":"Ret","ok":true,"b":b})),
                    Err(e) => fail(e),
                }
            }
            69..=80 => {
                // blocking bulk read: only if the device has or will have something to say
                let ready = con.read_ready().unwrap_or(false);
                dev(json!({"e":"Call","op":"read_ready"}));
                dev(json!({"e":"Ret","ok":true,"b":ready}));
                if !ready && !has_input {
                    continue;
                }
                let n = match rng.gen_range(0..6) { 0 => 0, 1 => 1, 2 => 4096, 3 => 5000, _ => rng.gen_range(1..300) };
                let mut buf = vec![0u8; n];
                dev(json!({"e":"Call","op":"read","n":n}));
                match Read::read(&mut con, &mut buf) {
                    Ok(r) => dev(bytes_ret(&buf[..r])),
                    Err(e) => fail(e),
                }
            }
            81..=90 => {
                let ready = con.read_ready().unwrap_or(false);
                dev(json!({"e":"Call","op":"read_ready"}));
                dev(json!({"e":"Ret","ok":true,"b":ready}));
                if !ready && !has_input {
                    continue;
                }
                dev(json!({"e":"Call","op":"fill_buf"}));
                let r = con.fill_buf().map(|s| s.to_vec());
                match r {
                    Ok(s) => {
                        dev(bytes_ret(&s));
                        let k = if s.is_empty() { 0 } else { rng.gen_range(0..=s.len()) };
                        dev(json!({"e":"Call","op":"consume","k":k}));
                        con.consume(k);
                        dev(json!({"e":"Ret","ok":true}));
                    }
                    Err(e) => fail(e),
                }
            }
            93..=94 => {
                // core::fmt::Write: string pieces, single characters (ASCII and beyond), padded
                // arguments; the caller's bytes are the UTF-8 text the same formatting produces
                use core::fmt::Write;
                const CHARS: [char; 8] = ['a', '~', '\u{e9}', '\u{20ac}', '\u{1f600}', '\u{ff}', '\u{100}', '\n'];
                let c = CHARS[rng.gen_range(0..CHARS.len())];
                let fill = CHARS[rng.gen_range(0..7)];
                let num: u32 = rng.gen_range(0..100000);
                let word = ["y", "x", "h\u{e9}llo", "\u{20ac}\u{20ac}"][rng.gen_range(0..4)];
                let kind = rng.gen_range(0..5);
                let text: String = match kind {
                    0 => c.to_string(),
                    1 => word.to_string(),
                    2 => format!("{word}:{c}{num}"),
                    3 => { let mut t = String::new(); for _ in 0..(8usize.saturating_sub(num.to_string().len())) { t.push(fill); } t + &num.to_string() }
                    _ => format!("<{c}|{c:?}>"),
                };
                let bytes: Vec<u8> = text.as_bytes().to_vec();
                dev(json!({"e":"Call","op":"fmt","bytes":bytes,"len":bytes.len()}));
                let r = match kind {
                    0 => con.write_char(c),
                    1 => con.write_str(word),
                    2 => write!(con, "{word}:{c}{num}"),
                    3 => match fill {
                        'a' => write!(con, "{num:a>8}"), '~' => write!(con, "{num:~>8}"), '\u{e9}' => write!(con, "{num:\u{e9}>8}"),
                        '\u{20ac}' => write!(con, "{num:\u{20ac}>8}"), '\u{1f600}' => write!(con, "{num:\u{1f600}>8}"),
                        '\u{ff}' => write!(con, "{num:\u{ff}>8}"), _ => write!(con, "{num:\u{100}>8}"),
                    },
                    _ => write!(con, "<{c}|{c:?}>"),
                };
                match r {
                    Ok(()) => dev(json!({"e":"Ret","ok":true})),
                    Err(_) => dev(json!({"e":"Ret","ok":false,"err":"fmt"})),
                }
            }
            95..=99 => {
                // embedded-io Write::write with position-coded data, lengths around and beyond a page
                use embedded_io::Write;
                let n: usize = [0usize, 1, 100, 4095, 4096, 4097, 5000, 10000][rng.gen_range(0..8)];
                let start: u64 = rng.gen_range(0..1_000_000);
                let data: Vec<u8> = (0..n as u64).map(|i| stream_byte(start + i)).collect();
                dev(json!({"e":"Call","op":"write","start":start,"len":n}));
                match con.write(&data) {
                    Ok(k) => dev(json!({"e":"Ret","ok":true,"n":k})),
                    Err(e) => fail(e),
                }
            }
            _ => {
                let n = match rng.gen_range(0..4) { 0 => 1, 1 => 4096, _ => rng.gen_range(1..100) };
                let mut data = vec![0u8; n];
                rng.fill(&mut data[..]);
                dev(json!({"e":"Call","op":"send","dg":fnv64(&data),"len":n}));
                let r = if n == 1 { con.send(data[0]) } else { con.send_bytes(&data) };
                match r {
                    Ok(()) => dev(json!({"e":"Ret","ok":true})),
                    Err(e) => fail(e),
                }
            }
        }
    }
    dev(json!({"e":"Drop"}));
    drop(con);
    "ok".into()
}

pub fn run(p: &ConParams, sc: &str) -> (Vec<Vec<String>>, Value) {
    // every third scenario runs on a platform that maps buffers in place (no bounce copies)
    INPLACE_MODE.with(|m| m.set(p.seed % 3 == 0 && !adv_active()));
    reset_world();
    INPLACE_MODE.with(|m| m.set(false));
    let mut rng = SmallRng::seed_from_u64(p.seed);
    engine::install(Box::new(ConPers { input: VecDeque::new(), written: 0 }), policy_of(&p.policy), p.seed ^ 0xc0, true);
    let t = tmake::make(&p.transport, "console", p.offered, p.legacy, 32768, crate::zoo::config_space("console"));
    with_world(|w| {
        w.trace.clear();
        w.dev(json!({"e":"ConReset","sc":sc}));
    });
    let r = catch_unwind(AssertUnwindSafe(|| crate::with_any_transport!(t, t => drive(t, p, &mut rng))));
    let result = match r {
        Ok(s) => s,
        Err(pn) => {
            let m = crate::scen_vq::panic_msg(&pn);
            with_world(|w| w.dev(json!({"e":"Panic","msg":m})));
            format!("panic: {m}")
        }
    };
    let segs = queue_segments(sc);
    engine::uninstall();
    let keep = ["ConReset", "Call", "Ret", "DevFill", "DevTx", "QAdd", "QPop", "Panic", "Stuck", "Drop"];
    let dlines: Vec<String> = with_world(|w| {
        let l = w.d_lines(&[]).into_iter().filter(|l| keep.iter().any(|k| l.contains(&format!("\"e\":\"{}\"", k)))).collect();
        w.trace.clear();
        l
    });
    let n = dlines.len();
    (vec![dlines, segs], json!({"result": result, "events": n}))
}

pub fn all_params(thorough: bool, seed: u64) -> Vec<ConParams> {
    let mut v = vec![];
    let mut s = seed.wrapping_mul(69_621);
    for _ in 0..(if thorough { 6 } else { 1 }) {
        for transport in tmake::TRANSPORTS {
            for policy in ["notify", "poll", "late"] {
                for feat in [0u64, 1 << 28, (1 << 29) | 1, (1 << 28) | (1 << 29) | (1 << 33) | 5] {
                    for legacy in [false, true] {
                        if legacy && transport.starts_with("pci") {
                            continue;
                        }
                        s += 1;
                        let offered = if legacy { feat } else { feat | (1 << 32) };
                        v.push(ConParams { transport: transport.into(), legacy, offered, policy: policy.into(), ops: if thorough { 600 } else { 200 }, seed: s });
                    }
                }
            }
        }
    }
    v
}
